"""Expression evaluation (code mode: forking, with obligations; spec mode: pure, non-forking)."""
import ast
import z3

from .values import *
from .engine import PathEnd, RaiseSig, Frame


def zbool(x):
    return x if z3.is_expr(x) else z3.BoolVal(bool(x))


class ExprMixin:
    # ------------------------------------------------------------------------------------------- truthiness
    def truth(self, v, fr):
        """z3 Bool (or python bool) for the truth value of v."""
        if isinstance(v, VBool):
            return v.z
        if isinstance(v, VInt):
            return v.z != 0
        if isinstance(v, VNone):
            return False
        if isinstance(v, VOptInt):
            if getattr(v, 'data', False):
                return z3.And(z3.Not(v.isnone), self.uf('truthy', 'int', 'bool')(v.z))
            return z3.And(z3.Not(v.isnone), v.z != 0)
        if isinstance(v, VRef):
            if v.cls is not None and v.cls in self.repo.classes:
                for m in ('__bool__', '__len__'):
                    fi = self.repo.lookup_method(v.cls, m)
                    if fi is not None or self._subclass_defines(v.cls, m):
                        if fr.spec:
                            raise Unsupported(f"truth of object with {m} in spec mode")
                        nz = v.z != 0
                        if not self.branch(nz, fr):
                            return False
                        r = self.call_method(v, m, [], {}, fr, None)
                        return self.truth(r, fr)
            return v.z != 0
        if isinstance(v, (VSeq, VView)):
            return v.n > 0
        if isinstance(v, VTuple):
            return len(v.items) > 0
        if isinstance(v, VRec):
            return True
        if isinstance(v, VOpaque):
            if v.tag == 'const':
                return bool(v.py)
            if v.tag in ('type', 'exc', 'module'):
                return True
            if v.tag in ('dropped', 'opaque'):
                # value of a dropped object (progress/status settings): every setting is explored
                return self.fresh_bool('dropped')
            raise Unsupported(f"truth of opaque {v!r}")
        if isinstance(v, VCallable):
            return True
        raise Unsupported(f"truth of {v!r}")

    def _subclass_defines(self, cls, m):
        return any(m in self.repo.classes[s].methods for s in self.repo.subclasses(cls))

    def test(self, node, fr) -> bool:
        """Evaluate a condition and decide it on this path."""
        v = self.ev(node, fr)
        t = self.truth(v, fr)
        d = self.branch(t, fr)
        if d:
            self.narrow(node, fr)
        elif isinstance(node, ast.UnaryOp) and isinstance(node.op, ast.Not):
            self.narrow(node.operand, fr)
        return d

    def narrow(self, test, fr):
        """Static class refinement after a successful isinstance(name, Class) test."""
        if isinstance(test, ast.BoolOp) and isinstance(test.op, ast.And):
            for sub in test.values:
                self.narrow(sub, fr)
            return
        if isinstance(test, ast.Call) and isinstance(test.func, ast.Name) and test.func.id == 'isinstance' and \
                len(test.args) == 2 and isinstance(test.args[0], ast.Name) and isinstance(test.args[1], ast.Name):
            name, cls = test.args[0].id, test.args[1].id
            v = fr.vars.get(name)
            if isinstance(v, VRef) and cls in self.repo.classes and not v.exact and \
                    (v.cls is None or v.cls not in self.repo.classes or self.repo.is_subclass(cls, v.cls)):
                fr.vars[name] = VRef(v.z, cls, nullable=False)

    # ------------------------------------------------------------------------------------------- dispatcher
    def ev(self, node, fr) -> V:
        if hasattr(node, 'lineno'):
            self.cur_line = node.lineno
        m = getattr(self, 'ev_' + type(node).__name__, None)
        if m is None:
            raise Unsupported(f"expression {type(node).__name__} at line {getattr(node, 'lineno', '?')}")
        return m(node, fr)

    def ev_Constant(self, node, fr):
        c = node.value
        if isinstance(c, bool):
            return VBool(c)
        if isinstance(c, int):
            return VInt(c)
        if c is None:
            return VNone()
        return VOpaque(c, 'const')

    def ev_Name(self, node, fr):
        name = node.id
        f = fr
        while f is not None:
            if name in f.vars:
                return f.vars[name]
            f = f.parent
        return self.global_name(name, fr, node)

    def global_name(self, name, fr, node=None):
        if fr.spec:
            if name in self.reg.macros or name in self.reg.ufs or name in self.SPEC_FUNCS:
                return VCallable('spec', name=name)
        if name in self.reg.opaque_names:
            return VOpaque(name, 'dropped')
        if name in self.repo.classes:
            return VCallable('class', cls=name)
        mod = fr.module
        if mod is not None:
            fi = self.repo.function(f"{mod}.{name}")
            if fi is not None:
                return VCallable('func', fi=fi, closure=None)
            consts = self.repo.module_consts.get(mod, {})
            if name in consts:
                key = f"{mod}.{name}"
                if any(k.startswith(key + '.') for k in self.reg.contracts):
                    return VOpaque(key, 'opaque')
                return self.module_const(mod, name)
        # imported function from another module of the package
        for m2 in self.repo.modules:
            fi = self.repo.function(f"{m2}.{name}")
            if fi is not None and self._imports(mod, name):
                return VCallable('func', fi=fi, closure=None)
        for m2 in self.repo.modules:
            if name in self.repo.module_consts.get(m2, {}) and self._imports(mod, name):
                return self.module_const(m2, name)
        rel = self._relative_origin(mod, name)
        if rel is not None and rel != mod and getattr(fr, '_chase', 0) < 4:
            f2 = Frame(None, None, {}, spec=fr.spec)
            f2.module = rel
            f2.noforks = True
            f2._chase = getattr(fr, '_chase', 0) + 1
            try:
                return self.global_name(name, f2, node)
            except Unsupported:
                pass
        org = self._import_origin(mod, name)
        if org is not None:
            key = f"{org[0]}.{org[1]}"
            if self.reg.get(key) is not None:
                return VCallable('external', key=key)
            if name not in self.BUILTINS and not exc_name(name):
                return VOpaque(key, 'opaque')
        if name in self.BUILTINS:
            return VCallable('builtin', name=name)
        if name in ('int', 'str', 'bool', 'float', 'list', 'tuple', 'dict', 'set', 'bytes', 'type', 'object'):
            return VCallable('builtin', name=name)
        if exc_name(name):
            return VOpaque(name, 'exc')
        if name in self.repo.modules or name in ('itertools', 'np', 'sys', 'os', 'logging', 'graphtage', 'json',
                                                  'mimetypes', 'plistlib', 'yaml', 'json5', 'csv', 'pickle'):
            return VOpaque(name, 'module')
        raise Unsupported(f"unresolved name {name!r} at line {getattr(node, 'lineno', '?')}")

    def _relative_origin(self, mod, name):
        """The package module from which `name` is imported by `from .m import name` in module mod."""
        tree = self.repo.modules.get(mod) if mod else None
        if tree is None:
            return None
        for n in ast.walk(tree):
            if isinstance(n, ast.ImportFrom) and n.level >= 1 and n.module and n.module in self.repo.modules:
                for a in n.names:
                    if (a.asname or a.name) == name and a.asname in (None, name):
                        return n.module
        return None

    def _import_origin(self, mod, name):
        """(external module, original name) if `name` is bound by `from <absolute module> import ...` in module mod."""
        tree = self.repo.modules.get(mod) if mod else None
        if tree is None:
            return None
        for n in ast.walk(tree):
            if isinstance(n, ast.ImportFrom) and n.level == 0 and n.module:
                for a in n.names:
                    if (a.asname or a.name) == name:
                        return (n.module, a.name)
        return None

    def _imports(self, mod, name):
        if mod is None:
            return True
        tree = self.repo.modules.get(mod)
        if tree is None:
            return True
        for n in ast.walk(tree):
            if isinstance(n, ast.ImportFrom):
                for a in n.names:
                    if (a.asname or a.name) == name:
                        return True
        return False

    def module_const(self, mod, name):
        key = (mod, name)
        expr = self.repo.module_consts[mod][name]
        fr = Frame(None, None, {}, spec=False)
        fr.module = mod
        fr.noforks = True
        try:
            return self.ev(expr, fr)
        except Unsupported:
            return VOpaque(f"{mod}.{name}", 'opaque')

    # ------------------------------------------------------------------------------------------- operators
    def ev_UnaryOp(self, node, fr):
        v = self.ev(node.operand, fr)
        if isinstance(node.op, ast.Not):
            t = self.truth(v, fr)
            if fr.spec or fr.noforks or isinstance(t, bool):
                return VBool(z3.Not(zbool(t)))
            return VBool(z3.Not(zbool(t)))
        if isinstance(node.op, ast.USub):
            if isinstance(v, VBool):
                v = VInt(z3.If(v.z, 1, 0))
            if isinstance(v, VInt):
                return VInt(-v.z)
            if isinstance(v, VOpaque) and v.tag == 'const':
                return VOpaque(-v.py, 'const')
        if isinstance(node.op, ast.UAdd) and isinstance(v, VInt):
            return v
        raise Unsupported(f"unary {type(node.op).__name__} on {v!r}")

    def as_int(self, v):
        if isinstance(v, VInt):
            return v.z
        if isinstance(v, VBool):
            return z3.If(v.z, 1, 0)
        raise Unsupported(f"expected int, got {v!r}")

    def ev_BinOp(self, node, fr):
        a = self.ev(node.left, fr)
        b = self.ev(node.right, fr)
        return self.binop(node.op, a, b, fr, node)

    def ev_DictComp(self, node, fr):
        """{k(x): v(x) for x in xs} with integer-identified keys: a dict value (sequence of (key, value) pairs in iteration order),
        under the generated obligation that the keys are pairwise distinct - colliding keys would collapse entries, which the
        sequence model does not represent.  Other key types stay unsupported."""
        if fr.spec:
            raise Unsupported("dict comprehension in a specification")
        elt = ast.Tuple(elts=[node.key, node.value], ctx=ast.Load())
        ast.copy_location(elt, node)
        R = self.comprehension(elt, node.generators, fr, 'dict', node)
        if isinstance(R, VTuple):
            keys = [it.items[0] for it in R.items]
            if not all(isinstance(k, VInt) for k in keys):
                raise Unsupported("dict comprehension with non-integer keys")
            for a in range(len(keys)):
                for b in range(a + 1, len(keys)):
                    self.oblige('dict-keys-distinct', keys[a].z != keys[b].z, fr, node, info='keys of a dict comprehension are distinct')
            return self.materialize(R) if R.items else R
        k0 = seq_get(R, z3.IntVal(0)).items[0]
        if not isinstance(k0, VInt):
            raise Unsupported("dict comprehension with non-integer keys")
        i, j = self.fresh_int('di'), self.fresh_int('dj')
        ki, kj = seq_get(R, i).items[0].z, seq_get(R, j).items[0].z
        self.oblige('dict-keys-distinct', z3.ForAll([i, j], z3.Implies(z3.And(i >= 0, i < j, j < R.n), ki != kj)), fr, node,
                    info='keys of a dict comprehension are distinct')
        return R

    def binop(self, op, a, b, fr, node):
        if (isinstance(a, VOpaque) and a.tag in ('dropped', 'opaque')) or \
                (isinstance(b, VOpaque) and b.tag in ('dropped', 'opaque')):
            return VOpaque(None, 'dropped')
        if isinstance(a, VOpaque) and isinstance(b, VOpaque) and a.tag == 'const' and b.tag == 'const':
            try:
                return self.lift_const(eval(compile(ast.Expression(ast.BinOp(ast.Constant(a.py), op, ast.Constant(b.py))),
                                                    '<c>', 'eval')))
            except Exception as e:
                raise Unsupported(f"constant binop failed: {e}")
        if isinstance(a, (VInt, VBool)) and isinstance(b, (VInt, VBool)):
            x, y = self.as_int(a), self.as_int(b)
            if isinstance(op, ast.Add):
                return VInt(x + y)
            if isinstance(op, ast.Sub):
                return VInt(x - y)
            if isinstance(op, ast.Mult):
                return VInt(x * y)
            if isinstance(op, ast.Pow):
                xs, ys = z3.simplify(x), z3.simplify(y)
                if z3.is_int_value(xs) and z3.is_int_value(ys) and ys.as_long() >= 0:
                    return VInt(xs.as_long() ** ys.as_long())
                raise Unsupported("symbolic power")
            if isinstance(op, (ast.FloorDiv, ast.Mod)):
                if not fr.spec:
                    self.oblige('no-raise', y != 0, fr, node, info='ZeroDivisionError')
                # python floor semantics; z3 div/mod are euclidean: equal for positive divisors
                q = z3.If(y > 0, x / y, -((-x) / (-y)) if False else z3.If(x % y == 0, x / y, x / y + z3.If(y < 0, 0, 0)))
                if isinstance(op, ast.FloorDiv):
                    fl = z3.If(y > 0, x / y, (-x) / (-y))
                    return VInt(fl)
                md = z3.If(y > 0, x % y, -((-x) % (-y)))
                return VInt(md)
        # sequence repetition / concatenation
        if isinstance(op, ast.Mult):
            if isinstance(a, (VSeq, VView, VTuple)) and isinstance(b, (VInt, VBool)):
                return self.seq_repeat(a, self.as_int(b))
            if isinstance(b, (VSeq, VView, VTuple)) and isinstance(a, (VInt, VBool)):
                return self.seq_repeat(b, self.as_int(a))
        if isinstance(op, ast.Add):
            if isinstance(a, VTuple) and isinstance(b, VTuple):
                return VTuple(a.items + b.items)
            if isinstance(a, (VSeq, VView)) and isinstance(b, (VSeq, VView)):
                return self.seq_concat(a, b)
            if isinstance(a, VRec) or isinstance(b, VRec) or isinstance(a, VRef) or isinstance(b, VRef):
                return self.dunder_binop('__add__', '__radd__', a, b, fr, node)
        if isinstance(op, ast.Sub):
            if isinstance(a, VRec) or isinstance(a, VRef):
                return self.dunder_binop('__sub__', '__rsub__', a, b, fr, node)
        raise Unsupported(f"binop {type(op).__name__} on {a!r}, {b!r}")

    def dunder_binop(self, name, rname, a, b, fr, node):
        if isinstance(a, (VRec, VRef)):
            return self.call_method(a, name, [b], {}, fr, node)
        return self.call_method(b, rname, [a], {}, fr, node)

    def lift_const(self, c):
        if isinstance(c, bool):
            return VBool(c)
        if isinstance(c, int):
            return VInt(c)
        if c is None:
            return VNone()
        if isinstance(c, tuple):
            return VTuple([self.lift_const(x) for x in c])
        return VOpaque(c, 'const')

    def seq_repeat(self, s, k):
        if isinstance(s, VTuple):
            items = s.items
            n = len(items)
            if n != 1:
                raise Unsupported("repeat of multi-element literal")
            it = items[0]
            return VView(z3.If(k > 0, k, 0), lambda i: it, 'list' if True else 'tuple', elem_ty=type_of(it))
        if isinstance(s, (VSeq, VView)):
            sn = z3.simplify(s.n)
            if z3.is_int_value(sn) and sn.as_long() == 1:
                it = seq_get(s, z3.IntVal(0))
                return VView(z3.If(k > 0, k, 0), lambda i: it, s.skind, elem_ty=type_of(it))
        raise Unsupported("sequence repetition of non-singleton")

    def seq_concat(self, a, b):
        n = a.n + b.n
        an = a.n
        return VView(n, lambda i: ite(i < an, seq_get(a, i), seq_get(b, i - an)), a.skind)

    def ev_BoolOp(self, node, fr):
        is_and = isinstance(node.op, ast.And)
        if fr.spec or fr.noforks:
            zs = [zbool(self.truth(self.ev(v, fr), fr)) for v in node.values]
            return VBool(z3.And(zs) if is_and else z3.Or(zs))
        last = None
        for i, sub in enumerate(node.values):
            v = self.ev(sub, fr)
            last = v
            if i == len(node.values) - 1:
                return v
            t = self.truth(v, fr)
            d = self.branch(t, fr)
            if is_and and not d:
                return v if not isinstance(v, (VBool,)) else VBool(False)
            if (not is_and) and d:
                return v if not isinstance(v, (VBool,)) else VBool(True)
        return last

    def ev_IfExp(self, node, fr):
        if fr.spec or fr.noforks:
            c = zbool(self.truth(self.ev(node.test, fr), fr))
            return ite(c, self.ev(node.body, fr), self.ev(node.orelse, fr))
        if self.test(node.test, fr):
            return self.ev(node.body, fr)
        return self.ev(node.orelse, fr)

    def ev_Compare(self, node, fr):
        left = self.ev(node.left, fr)
        conds = []
        for op, rn in zip(node.ops, node.comparators):
            right = self.ev(rn, fr)
            c = self.compare(op, left, right, fr, node)
            conds.append(zbool(c))
            left = right
            if not (fr.spec or fr.noforks) and len(node.ops) > 1:
                # chained comparisons short-circuit, but operands here are side-effect free in the supported subset
                pass
        return VBool(conds[0] if len(conds) == 1 else z3.And(conds))

    def compare(self, op, a, b, fr, node):
        if isinstance(op, (ast.Is, ast.IsNot)):
            r = self.identical(a, b)
            return r if isinstance(op, ast.Is) else z3.Not(zbool(r))
        if isinstance(op, (ast.Eq, ast.NotEq)):
            r = self.equals(a, b, fr, node)
            return r if isinstance(op, ast.Eq) else z3.Not(zbool(r))
        if isinstance(op, (ast.In, ast.NotIn)):
            r = self.contains(b, a, fr, node)
            return r if isinstance(op, ast.In) else z3.Not(zbool(r))
        # ordering
        if isinstance(a, (VInt, VBool)) and isinstance(b, (VInt, VBool)):
            x, y = self.as_int(a), self.as_int(b)
            return {ast.Lt: x < y, ast.LtE: x <= y, ast.Gt: x > y, ast.GtE: x >= y}[type(op)]
        if isinstance(a, VOptInt) or isinstance(b, VOptInt):
            a2 = coerce(a, VOptInt(True, 0))
            b2 = coerce(b, VOptInt(True, 0))
            if not fr.spec:
                self.oblige('no-raise', z3.And(z3.Not(a2.isnone), z3.Not(b2.isnone)), fr, node,
                            info='TypeError: ordering comparison with None')
            x, y = a2.z, b2.z
            return {ast.Lt: x < y, ast.LtE: x <= y, ast.Gt: x > y, ast.GtE: x >= y}[type(op)]
        if isinstance(a, VTuple) and isinstance(b, VTuple) and len(a.items) == len(b.items):
            return self.lex_compare(op, a.items, b.items)
        if isinstance(a, (VRec, VRef)):
            name = {ast.Lt: '__lt__', ast.LtE: '__le__', ast.Gt: '__gt__', ast.GtE: '__ge__'}[type(op)]
            cls = a.cls
            if cls and self.repo.lookup_method(cls, name) is None and isinstance(b, (VRec, VRef)) and \
                    (isinstance(a, VRec) or self._mro_contract(cls, name) is None):
                # reflected operation
                rname = {ast.Lt: '__gt__', ast.LtE: '__ge__', ast.Gt: '__lt__', ast.GtE: '__le__'}[type(op)]
                r = self.call_method(b, rname, [a], {}, fr, node)
            else:
                r = self.call_method(a, name, [b], {}, fr, node)
            return zbool(self.truth(r, fr))
        if isinstance(a, VNone) or isinstance(b, VNone):
            if not fr.spec:
                self.oblige('no-raise', False, fr, node, info='TypeError: ordering comparison with None')
            raise PathEnd()
        raise Unsupported(f"ordering {type(op).__name__} on {a!r}, {b!r}")

    def lex_compare(self, op, xs, ys):
        strict = isinstance(op, (ast.Lt, ast.Gt))
        less = isinstance(op, (ast.Lt, ast.LtE))
        res = z3.BoolVal(not strict)
        for x, y in reversed(list(zip(xs, ys))):
            xi, yi = self.as_int(x), self.as_int(y)
            lt = xi < yi if less else xi > yi
            res = z3.Or(lt, z3.And(xi == yi, res))
        return res

    def identical(self, a, b):
        if isinstance(a, VNone) and isinstance(b, VNone):
            return True
        if isinstance(a, VNone):
            a, b = b, a
        if isinstance(b, VNone):
            if isinstance(a, VRef):
                return a.z == 0
            if isinstance(a, VOptInt):
                return a.isnone
            if isinstance(a, VSeq) and a.nullable:
                return a.n == -1
            if isinstance(a, VOpaque) and a.py is None and a.tag == 'opaque':
                return self.fresh_bool('isnone')     # an unknown object (opaque parameter) may be None
            return False
        if isinstance(a, VRef) and isinstance(b, VRef):
            return a.z == b.z
        if isinstance(a, VBool) and isinstance(b, VBool):
            return a.z == b.z
        if isinstance(a, VOpaque) and isinstance(b, VOpaque):
            if (a.py is None and a.tag != 'const') or (b.py is None and b.tag != 'const'):
                # at least one side is an UNKNOWN object (result of type(x), an opaque parameter, a dropped object): whether it
                # is the other object is unspecified - both outcomes are explored (deciding "False" here pruned the branch
                # `if type(obj) is dict:` and hid a seeded change; see DESIGN section 9)
                return self.fresh_bool('is')
            return a.py == b.py and a.tag == b.tag
        if isinstance(a, VCallable) and isinstance(b, VCallable):
            return a.kind == b.kind and a.__dict__ == b.__dict__
        if isinstance(a, (VSeq, VView, VInt)) and isinstance(b, (VSeq, VView, VInt)) and \
                isinstance(a, VInt) == isinstance(b, VInt):
            # identity of two immutable values (str, int, tuple) is an implementation detail of the interpreter (interning,
            # small-int cache): modelled as an UNSPECIFIED boolean that can only be true for equal values
            r = self.fresh_bool('is')
            self.assume(z3.Implies(r, self.veq(a, b, node_eq=False)))
            return r
        if (isinstance(a, VOpaque) and a.py is None and a.tag != 'const') or (isinstance(b, VOpaque) and b.py is None and b.tag != 'const'):
            return self.fresh_bool('is')        # an unknown object may be any object
        if type(a) is not type(b):
            return False
        raise Unsupported(f"identity of {a!r} and {b!r}")

    def equals(self, a, b, fr, node):
        if fr.spec:
            return self.veq(a, b, node_eq=False)
        # code mode: objects with __eq__ compare by value
        if isinstance(a, VRec):
            fi = self.repo.lookup_method(a.cls, '__eq__')
            if fi is not None:
                return zbool(self.truth(self.call_method(a, '__eq__', [b], {}, fr, node), fr))
        if isinstance(a, VRef) and isinstance(b, (VRef, VNone)):
            if self.is_node_cls(a.cls) or (isinstance(b, VRef) and self.is_node_cls(b.cls)):
                return self.veq(a, b, node_eq=True)
            return self.veq(a, b, node_eq=False)
        return self.veq(a, b, node_eq=True)

    def is_node_cls(self, cls):
        return cls is not None and cls in self.repo.classes and self.repo.is_subclass(cls, 'TreeNode')

    def contains(self, container, item, fr, node):
        if isinstance(container, VTuple):
            return z3.Or([zbool(self.equals(item, x, fr, node)) for x in container.items] + [z3.BoolVal(False)])
        if isinstance(container, (VSeq, VView)) and container.skind == 'dict':
            k = self.fresh_int('m')
            return z3.Exists([k], z3.And(k >= 0, k < container.n,
                                         zbool(self.equals(item, seq_get(container, k).items[0], fr, node))))
        if isinstance(container, (VSeq, VView)):
            k = self.fresh_int('m')
            return z3.Exists([k], z3.And(k >= 0, k < container.n,
                                         zbool(self.equals(item, seq_get(container, k), fr, node))))
        if isinstance(container, VOpaque) and container.tag == 'opaque' and isinstance(container.py, str):
            c = self.reg.get(container.py + '.__contains__')
            if c is not None:
                r = self.apply_contract(c, None, self.bind_contract(c, [item], {}), fr, node)
                return zbool(self.truth(r, fr))
        if isinstance(container, (VRef, VRec)):
            if fr.spec:
                raise Unsupported("`in` on object in spec mode")
            r = self.call_method(container, '__contains__', [item], {}, fr, node)
            return zbool(self.truth(r, fr))
        if isinstance(container, VOpaque) and container.py is None and container.tag in ('opaque', 'dropped') and not fr.spec:
            return self.fresh_bool('in')        # membership in an unknown object: unspecified, both outcomes explored
        raise Unsupported(f"`in` on {container!r}")

    # ------------------------------------------------------------------------------------------- containers
    def ev_Tuple(self, node, fr):
        items = []
        for e in node.elts:
            if isinstance(e, ast.Starred):
                v = self.ev(e.value, fr)
                if not isinstance(v, VTuple):
                    raise Unsupported("star-unpack of symbolic-length sequence")
                items.extend(v.items)
            else:
                items.append(self.ev(e, fr))
        return VTuple(items)

    def ev_List(self, node, fr):
        items = [self.ev(e, fr) for e in node.elts]
        if not items:
            return VOpaque('emptylist', 'emptylist')
        s = VSeq(z3.IntVal(0), fresh(type_of(items[0]), self.fresh_name('lit'), 1), 'list')
        for it in items:
            s = seq_append(s, it)
        return s

    def ev_Dict(self, node, fr):
        if not node.keys:
            return VOpaque('emptydict', 'emptydict')
        if len(node.keys) == 1 and node.keys[0] is not None:
            # {k: v} with an integer key: modelled as a sparse sequence whose cell k holds v (reads at other keys are
            # not checked; stated in the assumptions)
            k = self.ev(node.keys[0], fr)
            v = self.ev(node.values[0], fr)
            if isinstance(k, VInt):
                if isinstance(v, VView):
                    v = self.materialize(v)
                s = fresh(Ty('seq', elem=type_of(v), skind='list'), self.fresh_name('dict'))
                self.assume(s.n == k.z + 1)
                self.assume(k.z >= 0)
                return seq_set(s, k.z, v)
        raise Unsupported("dict literal")

    def ev_JoinedStr(self, node, fr):
        for part in node.values:
            if isinstance(part, ast.FormattedValue):
                v = self.ev(part.value, fr)
                if part.format_spec is not None:
                    spec = part.format_spec
                    lit = ''.join(p.value for p in spec.values if isinstance(p, ast.Constant))
                    nonempty = len(spec.values) > 0 and (lit != '' or any(
                        not isinstance(p, ast.Constant) for p in spec.values))
                    if nonempty and part.conversion == -1 and self.lacks_format(v):
                        # object.__format__ raises TypeError for a non-empty format spec
                        if not fr.spec:
                            raise RaiseSig('TypeError', None, node)
        parts = []
        for part in node.values:
            if isinstance(part, ast.Constant):
                parts.append(part.value)
            else:
                try:
                    parts.append(self.ev(part.value, fr))
                except Unsupported:
                    parts.append(None)
        return VOpaque(parts, 'str')

    def lacks_format(self, v):
        if isinstance(v, VOpaque) and v.tag == 'excobj':
            return True
        if isinstance(v, VRef):
            return v.cls is None or self.repo.lookup_method(v.cls, '__format__') is None
        if isinstance(v, (VNone, VRec, VTuple, VSeq, VView)):
            return not (isinstance(v, (VSeq, VView)) and v.skind == 'str')
        return False

    def ev_Lambda(self, node, fr):
        return VCallable('lambda', node=node, closure=fr)

    def ev_Starred(self, node, fr):
        raise Unsupported("starred expression")

    # ------------------------------------------------------------------------------------------- attribute
    def mangle(self, attr, fr):
        if attr.startswith('__') and not attr.endswith('__') and fr.cls:
            return f"_{fr.cls.lstrip('_')}{attr}"
        return attr

    def ev_Attribute(self, node, fr):
        obj = self.ev(node.value, fr)
        attr = self.mangle(node.attr, fr)
        return self.getattr(obj, attr, fr, node)

    def getattr(self, obj, attr, fr, node):
        if isinstance(obj, VRec):
            if attr in obj.fields:
                return obj.fields[attr]
            fi = self.repo.lookup_method(obj.cls, attr)
            if fi is not None:
                if fi.is_property:
                    return self.call_function(fi, [obj], {}, fr, node, selfv=obj)
                return VCallable('bound', name=attr, selfv=obj)
            raise Unsupported(f"attribute {attr} of record {obj.cls}")
        if isinstance(obj, VRef):
            if fr.spec:
                if attr in self.reg.macros:
                    return self.expand_macro(attr, [obj], fr)
                return self.heap_get(obj, attr)
            if not obj.nullable:
                pass
            else:
                self.oblige('none-deref', obj.z != 0, fr, node, info=f"attribute {attr!r} of possibly-None object")
                self.assume(obj.z != 0)
            cls = obj.cls
            if cls is not None and cls in self.repo.classes:
                c = self.reg.get(f"{cls}.{attr}") or self._mro_contract(cls, attr)
                fi = self.repo.lookup_method(cls, attr)
                if fi is not None and fi.is_property:
                    return self.call_method(obj, attr, [], {}, fr, node, is_property=True)
                if fi is not None or (c is not None and not attr.startswith('__')):
                    if c is not None and fi is None and c.returns is not None and c.virtual and c.params.keys() <= {'self'} \
                            and getattr(c, 'is_attr', False):
                        return self.call_method(obj, attr, [], {}, fr, node, is_property=True)
                    return VCallable('bound', name=attr, selfv=obj)
                ca = self.repo.lookup_class_attr(cls, attr)
                if ca is not None and attr not in self.heap and not self._has_field_type(attr, cls):
                    f2 = Frame(None, None, {}, spec=False)
                    f2.module = self.repo.classes[cls].module
                    f2.noforks = True
                    return self.ev(ca, f2)
            return self.heap_get(obj, attr)
        if isinstance(obj, VCallable) and obj.kind == 'class':
            fi = self.repo.lookup_method(obj.cls, attr)
            if fi is not None:
                if fi.is_classmethod:
                    return VCallable('func', fi=fi, closure=None, clsarg=obj.cls)
                return VCallable('func', fi=fi, closure=None)
            ca = self.repo.lookup_class_attr(obj.cls, attr)
            if ca is not None:
                f2 = Frame(None, None, {}, spec=False)
                f2.module = self.repo.classes[obj.cls].module
                f2.noforks = True
                return self.ev(ca, f2)
            raise Unsupported(f"class attribute {obj.cls}.{attr}")
        if isinstance(obj, (VSeq, VView)):
            return VCallable('seqmethod', name=attr, seq=obj, origin=self._origin(node.value if node is not None else None, fr))
        if isinstance(obj, VOpaque) and obj.tag == 'emptyset' and attr == 'add':
            return VCallable('seqmethod', name=attr, seq=obj, origin=self._origin(node.value, fr))
        if isinstance(obj, VOpaque) and obj.tag == 'kwargs':
            return VOpaque((obj.py, attr), 'kwargsmethod')
        if isinstance(obj, VOpaque):
            if obj.tag in ('dropped', 'opaque', 'module', 'str', 'emptylist', 'emptydict'):
                if obj.tag == 'emptylist' and attr in ('append', 'extend'):
                    return VCallable('seqmethod', name=attr, seq=obj, origin=self._origin(node.value, fr))
                if obj.tag == 'module':
                    return self.module_attr(obj.py, attr, fr, node)
                if obj.tag == 'opaque' and isinstance(obj.py, str):
                    key = f"{obj.py}.{attr}"
                    if self.reg.get(key) is not None:
                        return VCallable('external', key=key)
                    return VOpaque(key, 'opaque')
                return VOpaque((obj.py, attr), obj.tag if obj.tag != 'emptylist' else 'opaque')
            if obj.tag == 'const':
                return VOpaque((obj.py, attr), 'constmethod')
            if obj.tag == 'excobj':
                return VOpaque((obj.py, attr), 'opaque')
        if isinstance(obj, VTuple):
            raise Unsupported(f"attribute {attr} of tuple")
        raise Unsupported(f"attribute {attr!r} of {obj!r}")

    def _has_field_type(self, attr, cls):
        try:
            self.field_type(attr, cls)
            return True
        except Unsupported:
            return False

    def _mro_contract(self, cls, attr):
        for c in self.repo.mro(cls):
            k = self.reg.get(f"{c}.{attr}")
            if k is not None:
                return k
        return None

    def module_attr(self, modname, attr, fr, node):
        if modname in self.repo.modules or modname == 'graphtage':
            if attr in self.repo.classes:
                return VCallable('class', cls=attr)
            for m2 in ([modname] if modname in self.repo.modules else []) + list(self.repo.modules):
                fi = self.repo.function(f"{m2}.{attr}")
                if fi is not None:
                    return VCallable('func', fi=fi, closure=None)
            key = f"{modname}.{attr}"
            if any(k.startswith(key + '.') for k in self.reg.contracts):
                return VOpaque(key, 'opaque')
            for m2 in self.repo.modules:
                if attr in self.repo.module_consts.get(m2, {}):
                    return self.module_const(m2, attr)
        if modname == 'itertools' and attr in ('chain', 'product'):
            return VCallable('builtin', name='itertools.' + attr)
        key = f"{modname}.{attr}"
        if self.reg.get(key) is not None:
            return VCallable('external', key=key)
        return VOpaque(key, 'opaque')

    def _origin(self, node, fr):
        """Where a list value lives, so that in-place mutation can be written back."""
        if isinstance(node, ast.Name):
            return ('var', node.id)
        if isinstance(node, ast.Attribute):
            return ('attr', node)
        if isinstance(node, ast.Subscript):
            return ('sub', node)
        return None

    # ------------------------------------------------------------------------------------------- subscripts
    def seq_nonnull(self, s, fr, node, what):
        if isinstance(s, VSeq) and s.nullable and not fr.spec:
            self.oblige('none-deref', s.n != -1, fr, node, info=f"{what} of possibly-None sequence")
            self.assume(s.n != -1)

    def norm_index(self, s, iv, fr, node, check=True):
        self.seq_nonnull(s, fr, node, 'subscript')
        n = s.n if not isinstance(s, VTuple) else z3.IntVal(len(s.items))
        if fr.spec:
            # specifications index with non-negative terms; only a literal negative index wraps
            ivs = z3.simplify(iv)
            if z3.is_int_value(ivs) and ivs.as_long() < 0:
                return z3.simplify(ivs + n)
            return iv
        idx = z3.simplify(z3.If(iv < 0, iv + n, iv))
        if check and not fr.spec:
            self.oblige('index', z3.And(idx >= 0, idx < n), fr, node, info='IndexError')
            self.assume(z3.And(idx >= 0, idx < n))
        return idx

    def slice_bounds(self, s, sl, fr):
        n = s.n if not isinstance(s, VTuple) else z3.IntVal(len(s.items))
        if sl.step is not None:
            raise Unsupported("slice step")

        def clamp(v, default):
            if v is None:
                return default
            x = self.ev(v, fr)
            if isinstance(x, VNone):
                return default
            a = self.as_int(x)
            # Python: negative -> max(n + a, 0); non-negative -> min(a, n)
            return z3.If(a < 0, z3.If(n + a < 0, 0, n + a), z3.If(a > n, n, a))
        lo = clamp(sl.lower, z3.IntVal(0))
        hi = clamp(sl.upper, n)
        ln = z3.If(hi - lo > 0, hi - lo, 0)
        return z3.simplify(lo), z3.simplify(ln)

    def ev_Subscript(self, node, fr):
        base = self.ev(node.value, fr)
        if isinstance(node.slice, ast.Slice):
            if isinstance(base, VTuple):
                base = self.materialize(base) if base.items else None
                if base is None:
                    return VTuple([])
            if not isinstance(base, (VSeq, VView)):
                raise Unsupported(f"slice of {base!r}")
            lo, ln = self.slice_bounds(base, node.slice, fr)
            b = base
            return VView(ln, lambda i: seq_get(b, lo + i), base.skind, elem_ty=type_of(base).elem)
        idx = self.ev(node.slice, fr)
        if isinstance(base, (VSeq, VView, VTuple)):
            if isinstance(base, VTuple) and isinstance(idx, VInt) and z3.is_int_value(z3.simplify(idx.z)):
                k = z3.simplify(idx.z).as_long()
                if -len(base.items) <= k < len(base.items):
                    return base.items[k]
            i = self.norm_index(base, self.as_int(idx), fr, node)
            v = seq_get(base, i)
            self._ref_facts(v)
            return v
        if isinstance(base, (VRef, VRec)):
            if fr.spec:
                raise Unsupported("object subscript in spec mode")
            return self.call_method(base, '__getitem__', [idx], {}, fr, node)
        if isinstance(base, VOpaque) and base.tag == 'opaque' and isinstance(base.py, str) and \
                self.reg.get(base.py + '.__getitem__') is not None:
            c = self.reg.get(base.py + '.__getitem__')
            return self.apply_contract(c, None, self.bind_contract(c, [idx], {}), fr, node)
        if isinstance(base, VOpaque):
            if base.tag in ('dropped', 'opaque', 'module', 'emptydict'):
                return VOpaque(None, 'dropped' if base.tag == 'dropped' else 'opaque')
        raise Unsupported(f"subscript of {base!r}")

    # ------------------------------------------------------------------------------------------- comprehensions
    def ev_ListComp(self, node, fr):
        return self.comprehension(node.elt, node.generators, fr, 'list', node)

    def ev_GeneratorExp(self, node, fr):
        return self.comprehension(node.elt, node.generators, fr, 'list', node)

    def iter_source(self, v, fr, node):
        """Turn an iterable value into a sequence value (VSeq/VView/VTuple)."""
        if isinstance(v, VOpaque) and v.tag == 'emptyset':
            return VTuple([])
        if isinstance(v, VSeq) and v.skind == 'set':
            # iterating a set yields an arbitrary permutation of its elements (uninterpreted bijection)
            pi = z3.Function(self.fresh_name('perm'), I, I)
            i, j = self.fresh_int('pi'), self.fresh_int('pj')
            n = v.n
            self.assume(z3.ForAll([i], z3.Implies(z3.And(i >= 0, i < n), z3.And(pi(i) >= 0, pi(i) < n))))
            self.assume(z3.ForAll([i, j], z3.Implies(z3.And(i >= 0, i < n, j >= 0, j < n, pi(i) == pi(j)), i == j)))
            sv = v
            return VView(n, lambda k: seq_get(sv, pi(k)), 'list', elem_ty=type_of(v).elem)
        if isinstance(v, (VSeq, VView)) and v.skind == 'dict':
            d = v
            return VView(d.n, lambda k: seq_get(d, k).items[0], 'list', elem_ty=type_of(d).elem.items[0])
        if isinstance(v, (VSeq, VView, VTuple)):
            self.seq_nonnull(v, fr, node, 'iteration')
            return v
        if isinstance(v, VOpaque) and v.tag == 'emptylist':
            return VTuple([])
        if isinstance(v, (VRef, VRec)):
            r = self.call_method(v, '__iter__', [], {}, fr, node)
            return self.iter_source(r, fr, node)
        raise Unsupported(f"iteration over {v!r}")

    def bind_target(self, target, v, fr):
        if isinstance(target, ast.Name):
            fr.vars[target.id] = v
        elif isinstance(target, (ast.Tuple, ast.List)):
            if isinstance(v, VTuple):
                items = v.items
            elif isinstance(v, (VSeq, VView)):
                n = z3.simplify(v.n)
                if not z3.is_int_value(n):
                    # require/assume the arity
                    self.oblige('no-raise', v.n == len(target.elts), fr, target, info='unpack arity')
                    self.assume(v.n == len(target.elts))
                items = [seq_get(v, z3.IntVal(k)) for k in range(len(target.elts))]
            else:
                raise Unsupported(f"unpack of {v!r}")
            if len(items) != len(target.elts):
                raise Unsupported("unpack arity mismatch")
            for t, it in zip(target.elts, items):
                self.bind_target(t, it, fr)
        else:
            raise Unsupported(f"binding target {type(target).__name__}")

    def comprehension(self, elt, gens, fr, skind, node):
        if len(gens) != 1:
            raise Unsupported("nested comprehension generators")
        g = gens[0]
        src = self.iter_source(self.ev(g.iter, fr), fr, node)
        inner = Frame(fr.fi, fr.cls, {}, spec=fr.spec, parent=fr)
        inner.module = fr.module
        inner.entry_vars, inner.old_heap, inner.depth = fr.entry_vars, fr.old_heap, fr.depth
        if isinstance(src, VTuple):
            out = []
            for it in src.items:
                self.bind_target(g.target, it, inner)
                if all(self.test(c, inner) for c in g.ifs):
                    out.append(self.ev(elt, inner))
            return VTuple(out) if not out or skind == 'tuple' else self.materialize(VTuple(out)) if skind == 'list' and out \
                else VTuple(out)
        if g.ifs:
            raise Unsupported("filtered comprehension over symbolic sequence")
        # quantified definition: R[i] == elt(src[i])
        special = self.alloc_comprehension(elt, g, src, inner, fr, node)
        if special is not None:
            return special
        iv = self.fresh_int('ci')
        inner.noforks = True
        # the body is evaluated for an arbitrary in-range index: obligations inside see the range guard, facts
        # recorded inside are dropped again afterwards
        saved_pc, saved_ids = list(self.pc), set(self.pc_ids)
        self.assume(z3.And(iv >= 0, iv < src.n))
        n_guarded = len(self.pc)
        counter0, heap0 = dict(self.counter), dict(self.heap)
        self.in_quant += 1
        try:
            self.bind_target(g.target, seq_get(src, iv), inner)
            ev = self.ev(elt, inner)
            inner_facts = list(self.pc[n_guarded:])
        finally:
            self.in_quant -= 1
            self.pc, self.pc_ids = saved_pc, saved_ids
        if any(self.heap.get(k) is not v for k, v in heap0.items()) or len(self.heap) != len(heap0):
            heap_changed = [k for k in self.heap if self.heap.get(k) is not heap0.get(k)]
            if any(k not in heap0 or not self.same_tree(self.heap[k], heap0[k]) for k in heap_changed):
                raise Unsupported("comprehension body with heap effects over a symbolic sequence")
        # values created inside the body (results of contract calls, ...) are one per element: Skolem functions of the index
        ev, kept = self.skolemize_per_index(ev, inner_facts, counter0, iv)
        ety = type_of(ev)
        R = fresh(Ty('seq', elem=ety, skind=skind), self.fresh_name('comp'))
        R.skind = skind
        self.assume(R.n == src.n)
        self.assume(src.n >= 0)
        self.assume_forall_eq([iv], z3.And(iv >= 0, iv < src.n), sel(R.elem, iv), ev)
        if isinstance(ev, VInt):
            R.comp_def = (iv, ev.z)
        for f in kept:
            self.assume(z3.ForAll([iv], z3.Implies(z3.And(iv >= 0, iv < src.n), f)))
        return R

    def same_tree(self, a, b):
        return a is b

    def skolemize_per_index(self, ev, facts, counter0, iv):
        """Constants created while the body of a comprehension over a symbolic sequence was evaluated for the arbitrary
        index `iv` (fresh results of contract calls) denote one value *per element*: each is replaced by a Skolem function of
        the index, in the element value and in the facts recorded about it, which are kept under the index quantifier.
        (Leaving them as constants would assert that every element has the same value.)"""
        import re
        import copy

        def vmap_z(v, fn):
            if isinstance(v, (VInt, VBool, VRef)):
                w = copy.copy(v)
                w.z = fn(v.z)
                return w
            if isinstance(v, VOptInt):
                w = copy.copy(v)
                w.isnone, w.z = fn(v.isnone), fn(v.z)
                return w
            if isinstance(v, VTuple):
                return VTuple([vmap_z(x, fn) for x in v.items])
            if isinstance(v, (VNone, VOpaque)):
                return v
            raise Unsupported(f"comprehension element {v!r} with per-element results {sorted(consts)}")
        pat = re.compile(r'^(.+?)!(\d+)')

        def is_new(name):
            m = pat.match(name)
            return bool(m) and int(m.group(2)) >= counter0.get(m.group(1), 0)

        consts = {}

        def collect(t, seen):
            if t.get_id() in seen:
                return
            seen.add(t.get_id())
            if z3.is_const(t) and t.decl().kind() == z3.Z3_OP_UNINTERPRETED:
                if is_new(t.decl().name()) and not t.eq(iv):
                    consts[t.decl().name()] = t
            elif z3.is_app(t):
                for ch in t.children():
                    collect(ch, seen)
            elif z3.is_quantifier(t):
                collect(t.body(), seen)

        seen = set()
        zs = []
        try:
            vmap_z(ev, lambda z: (zs.append(z), z)[1])
        except Unsupported:
            # a sequence-valued element (e.g. [[0] * n for _ in range(m)]): handled only when nothing was created inside
            zs = []
        for z in zs:
            collect(z, seen)
        for f in facts:
            collect(f, seen)
        if not consts:
            return ev, []
        subs = []

        def mentions_new(t):
            found = {}
            saved = dict(consts)
            consts.clear()
            collect(t, set())
            found.update(consts)
            consts.clear()
            consts.update(saved)
            return bool(found)

        # a created constant that a recorded fact defines by a term over older symbols is replaced by that term
        for f in facts:
            if z3.is_eq(f):
                a, b = f.children()
                for c, t in ((a, b), (b, a)):
                    if z3.is_const(c) and c.decl().kind() == z3.Z3_OP_UNINTERPRETED and c.decl().name() in consts \
                            and not mentions_new(t):
                        subs.append((c, t))
                        del consts[c.decl().name()]
                        break
        for name, c in consts.items():
            if z3.is_array(c):
                raise Unsupported("comprehension body creates a sequence-valued result over a symbolic sequence")
            F = z3.Function(name + '@i', I, c.sort())
            subs.append((c, F(iv)))
        ev2 = vmap_z(ev, lambda z: z3.substitute(z, *subs))
        kept = [z3.substitute(f, *subs) for f in facts]
        return ev2, kept

    def alloc_comprehension(self, elt, g, src, inner, fr, node):
        """[C(args) for x in seq] / [x.m(args) for x in seq] where the callee has an allocating contract without other
        heap effects: the i-th call allocates its own block of fresh objects; ensures are assumed per index."""
        if not isinstance(elt, ast.Call) or fr.spec:
            return None
        iv = self.fresh_int('ci')
        inner.noforks = True
        self.bind_target(g.target, seq_get(src, iv), inner)
        try:
            fnv = self.ev(elt.func, inner)
        except Unsupported:
            return None
        ctor = False
        fi = None
        if isinstance(fnv, VCallable) and fnv.kind == 'class':
            c = self.reg.get(f"{fnv.cls}.__init__")
            fi = self.repo.lookup_method(fnv.cls, '__init__')
            ctor = True
            rcls = fnv.cls
        elif isinstance(fnv, VCallable) and fnv.kind == 'bound' and isinstance(fnv.selfv, VRef):
            c = self._mro_contract(fnv.selfv.cls, fnv.name)
            fi = self.repo.lookup_method(fnv.selfv.cls, fnv.name) if fnv.selfv.cls in self.repo.classes else None
            if c is None or not c.allocates or c.returns is None:
                return None
            rcls = parse_type(c.returns).cls
        else:
            return None
        mods = [m for m in (c.modifies if c is not None else []) if not (ctor and m.endswith('@self'))]
        if c is None or mods or c.may_raise or any(v is not None for v in c.raises.values()):
            return None
        args, kwargs = self.eval_args(elt, inner)
        n = src.n
        self.assume(n >= 0)
        guard = z3.And(iv >= 0, iv < n)
        base = self.alloc
        # the result sequence first: all facts about the new objects are stated through R[iv] (arithmetic-free triggers)
        R = fresh(Ty('seq', elem=Ty('ref', cls=rcls, nullable=False), skind='list'), self.fresh_name('comp'))
        self.assume(R.n == n)
        refz = z3.Select(R.elem.z, iv)
        if ctor:
            newalloc = z3.simplify(base + n)
            self.assume(z3.ForAll([iv], z3.Implies(guard, refz == base + iv)))
            result = VRef(refz, rcls, nullable=False)
            self.assume(z3.ForAll([iv], z3.Implies(guard, self.cls_of(refz) == self.repo.class_ids[rcls])))
            selfarg = [result]
        else:
            newalloc = self.fresh_int('alloc')
            jv = self.fresh_int('cj')
            self.assume(newalloc >= base)
            self.assume(z3.ForAll([iv], z3.Implies(guard, z3.And(refz >= base, refz < newalloc))))
            self.assume(z3.ForAll([iv, jv], z3.Implies(z3.And(iv >= 0, iv < jv, jv < n),
                                                       z3.Select(R.elem.z, iv) < z3.Select(R.elem.z, jv))))
            result = VRef(refz, rcls, nullable=False)
            selfarg = [fnv.selfv]
        bound = self.bind_contract(c, selfarg + list(args), kwargs, fi)
        sf = Frame(fi, fi.cls if fi else None, dict(bound), spec=True)
        sf.module = fi.module if fi else fr.module
        sf.noforks = True
        sf.entry_vars = dict(bound)
        sf.old_heap = dict(self.heap)
        sf.alloc_before = base
        for pre in c.requires:
            gpre = self.ev_spec(pre, sf)
            self.oblige('pre@call', z3.ForAll([iv], z3.Implies(guard, gpre)), fr, elt, info=f"{c.key}: {pre} (each element)")
        for pn, ts in c.params.items():
            ty = parse_type(ts)
            v = bound.get(pn)
            if ty.kind == 'ref' and isinstance(v, VRef) and not (ctor and v is result):
                conds = []
                if not ty.nullable:
                    conds.append(v.z != 0)
                if ty.cls in self.repo.classes and not (v.cls and self.repo.is_subclass(v.cls, ty.cls)):
                    conds.append(z3.Or(v.z == 0, self.isinstance_z(v, ty.cls)))
                if conds:
                    self.oblige('pre@call', z3.ForAll([iv], z3.Implies(guard, z3.And(conds))), fr, elt,
                                info=f"{c.key}: type of {pn} (each element)")
        self.alloc = newalloc
        if not ctor:
            sf.vars['result'] = result
            rty = parse_type(c.returns)
            if rty.cls in self.repo.classes:
                self.assume(z3.ForAll([iv], z3.Implies(guard, self.isinstance_z(VRef(refz, None), rty.cls))))
        self.in_quant += 1
        try:
            posts = [self.ev_spec(post, sf) for post in list(c.ensures) + list(getattr(c, 'assumed_ensures', []))]
        finally:
            self.in_quant -= 1
        for g_post in posts:
            self.assume(z3.ForAll([iv], z3.Implies(guard, g_post)))
        return R
