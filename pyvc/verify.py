"""Driver: verify one function of the real repo against its sidecar contract; discharge obligations with z3
(cvc5 / system z3 take the unknowns)."""
import ast
import os
import subprocess
import tempfile
import time
import traceback
import z3

from .values import *
from .engine import (Executor, Frame, PathEnd, ReturnSig, RaiseSig, BreakSig, ContinueSig, Obligation, BUILTIN_EXC,
                     exc_is_subclass)
from . import expr as _expr
from .expr import ExprMixin
from .stmt import StmtMixin
from .calls import CallMixin
from .source import Repo, FunctionInfo
from .spec import Registry, Contract


_FORK_VC = None
_FORK_ARGS = None


def _explore_prefix(prefix):
    fi, c = _FORK_ARGS
    return _FORK_VC.explore_one(prefix, fi, c)


def _solve_index(i):
    t0 = time.time()
    v, b, m = _FORK_VC.solve(_FORK_VC.obligations[i])
    return v, b, m, (time.time() - t0) * 1000


def _has_quant(e):
    seen = set()
    stack = [e]
    while stack:
        x = stack.pop()
        if z3.is_quantifier(x):
            return True
        k = x.get_id()
        if k in seen:
            continue
        seen.add(k)
        stack.extend(x.children())
    return False


_symcache = {}


def _symbols(e):
    k = e.get_id()
    if k in _symcache:
        return _symcache[k]
    out = set()
    seen = set()
    stack = [e]
    while stack:
        x = stack.pop()
        i = x.get_id()
        if i in seen:
            continue
        seen.add(i)
        if z3.is_quantifier(x):
            stack.append(x.body())
            continue
        if z3.is_app(x):
            d = x.decl()
            if d.kind() == z3.Z3_OP_UNINTERPRETED:
                out.add(d.name())
            stack.extend(x.children())
    _symcache[k] = out
    return out


def exc_name(name):
    return name in BUILTIN_EXC or name.endswith('Error') or name.endswith('Exception')


_expr.exc_name = exc_name
_expr.exc_is_subclass = exc_is_subclass


class FunctionResult:
    def __init__(self, qualname):
        self.qualname = qualname
        self.status = 'ok'            # ok | out_of_reach | unbound
        self.reason = ''
        self.obligations = []         # aggregated by name: dict
        self.paths = 0
        self.source_hash = None
        self.span = None
        self.file = None
        self.wall_s = 0.0
        self.trivial = 0
        self.return_paths = 0
        self.cover_ok = None

    def to_json(self):
        return {
            'function': self.qualname, 'status': self.status, 'reason': self.reason, 'paths': self.paths,
            'source_sha': self.source_hash, 'lines': self.span, 'file': self.file, 'wall_s': round(self.wall_s, 3),
            'obligations': self.obligations, 'trivially_true_instances': self.trivial,
            'return_paths': self.return_paths, 'cover_return_reachable': self.cover_ok,
            'explore_s': getattr(self, 'explore_s', None),
        }


class VC(Executor, ExprMixin, StmtMixin, CallMixin):
    def __init__(self, repo, reg, budget_ms=10000):
        Executor.__init__(self, repo, reg, budget_ms)
        self.opaque_attrs = {}
        self.call_stack = []
        self.inline_target = True

    # attribute access on super() / opaque-attrs
    def getattr(self, obj, attr, fr, node):
        if isinstance(obj, VCallable) and obj.kind == 'super':
            sv = obj.selfv
            dyn = sv.cls if isinstance(sv, VRef) and sv.cls else obj.after
            if isinstance(sv, VOpaque) and sv.tag == 'recinit':
                dyn = sv.py.cls
            return VCallable('superbound', name=attr, selfv=sv, after=obj.after, dyn_cls=dyn)
        if isinstance(obj, VRef) and (str(obj.z), attr) in self.opaque_attrs:
            return self.opaque_attrs[(str(obj.z), attr)]
        return ExprMixin.getattr(self, obj, attr, fr, node)

    # ------------------------------------------------------------------------------------------- verification
    def verify(self, qualname) -> FunctionResult:
        t0 = time.time()
        res = FunctionResult(qualname)
        fi = self.repo.function(qualname) or self.repo.nested_function(qualname)
        if fi is None:
            res.status = 'unbound'
            res.reason = f"function {qualname} not found in the working tree"
            return res
        key = f"{fi.cls}.{fi.name}" if fi.cls else fi.qualname
        if '.' in qualname and self.repo.function(qualname) is None:
            key = qualname
        c = self.reg.get(key)
        if c is None:
            res.status = 'unbound'
            res.reason = f"no contract registered for {key}"
            return res
        errs = [e for chk in self.reg.side_checks for e in chk(self.repo)]
        if errs:
            res.status = 'unbound'
            res.reason = 'mechanical premise of an assumed coupling failed: ' + '; '.join(errs)
            return res
        res.source_hash = fi.body_hash()
        res.span = list(fi.span())
        res.file = os.path.relpath(fi.path, self.repo.root)
        argnames = [a.arg for a in fi.node.args.posonlyargs + fi.node.args.args + fi.node.args.kwonlyargs]
        missing = [p for p in c.params if p not in argnames and not p.startswith('$')] if not c.slice_names else []
        if missing:
            res.status = 'unbound'
            res.reason = f"contract parameters {missing} not in signature {argnames}"
            return res
        self.target = fi
        self.obligations = []
        self.touched = set()
        self.trivial = 0
        self.pending = [[]]
        self.ghost_hits = set()
        npaths = 0
        return_pcs = []
        workers = int(os.environ.get('PYVC_INNER_WORKERS', '1'))
        if workers > 1 and not getattr(self, 'no_parallel', False):
            return self.verify_parallel(res, fi, c, workers, t0)
        try:
            while self.pending:
                prefix = self.pending.pop()
                npaths += 1
                if npaths > self.MAX_PATHS:
                    raise Unsupported(f"more than {self.MAX_PATHS} paths")
                self.reset_path(prefix)
                self.call_stack = [fi.qualname]
                self.opaque_attrs = {}
                try:
                    self.run_target(fi, c, return_pcs)
                except PathEnd:
                    pass
        except Unsupported as e:
            res.status = 'out_of_reach'
            res.reason = f"{e} (line {self.cur_line})"
            res.paths = npaths
            res.wall_s = time.time() - t0
            return res
        except RecursionError:
            res.status = 'out_of_reach'
            res.reason = 'recursion limit in executor'
            return res
        missing_anchor = [t for t in list(c.ghost_after) + list(c.ghost_before) if t not in self.ghost_hits]
        if missing_anchor:
            res.status = 'unbound'
            res.reason = f"ghost anchor statement(s) not found in the body: {missing_anchor}"
            return res
        res.paths = npaths
        res.trivial = self.trivial
        res.return_paths = len(return_pcs)
        res.explore_s = round(time.time() - t0, 2)
        self.discharge(res)
        # vacuity: some normal-exit path must be reachable under the precondition
        res.cover_ok = False
        for pc in return_pcs[:40]:
            s = z3.Solver()
            s.set('timeout', 3000)
            for p in pc:
                s.add(p)
            r = s.check()
            if r == z3.sat:
                res.cover_ok = True
                break
            if r == z3.unknown:
                res.cover_ok = 'not-refuted'   # path condition not shown contradictory (quantifiers)
        res.wall_s = time.time() - t0
        return res

    # ------------------------------------------------------------------------------------------- parallel exploration
    def explore_one(self, prefix, fi, c):
        """Worker side: explore the path selected by `prefix`, discharge its obligations, report new alternatives."""
        self.obligations = []
        self.touched = set()
        self.trivial = 0
        self.pending = []
        self.ghost_hits = set()
        return_pcs = []
        out = {'unsupported': None, 'rows': [], 'pending': [], 'touched': [], 'trivial': 0, 'ret': None, 'ghost_hits': []}
        try:
            self.reset_path(prefix)
            self.call_stack = [fi.qualname]
            self.opaque_attrs = {}
            try:
                self.run_target(fi, c, return_pcs)
            except PathEnd:
                pass
        except Unsupported as e:
            out['unsupported'] = f"{e} (line {self.cur_line})"
            return out
        except RecursionError:
            out['unsupported'] = 'recursion limit in executor'
            return out
        for ob in self.obligations:
            t0 = time.time()
            v, b, m = self.solve(ob)
            out['rows'].append((ob.name, ob.kind, ob.line, ob.info, v, b, m, (time.time() - t0) * 1000))
        out['pending'] = self.pending
        out['touched'] = sorted(self.touched)
        out['trivial'] = self.trivial
        out['ghost_hits'] = sorted(self.ghost_hits)
        for pc in return_pcs:
            s = z3.Solver()
            s.set('timeout', 3000)
            for p in pc:
                s.add(p)
            r = s.check()
            out['ret'] = True if r == z3.sat else ('not-refuted' if r == z3.unknown else False)
        return out

    def verify_parallel(self, res, fi, c, workers, t0):
        import multiprocessing as mp
        global _FORK_VC, _FORK_ARGS
        _FORK_VC, _FORK_ARGS = self, (fi, c)
        agg, order = {}, []
        touched, ghost_hits = set(), set()
        npaths = 0
        cover = False
        nret = 0
        trivial = 0
        unsupported = None
        with mp.get_context('fork').Pool(workers) as pool:
            inflight = [pool.apply_async(_explore_prefix, ([],))]
            while inflight:
                job = inflight.pop(0)
                out = job.get()
                npaths += 1
                if out['unsupported'] and unsupported is None:
                    unsupported = out['unsupported']
                if npaths + len(inflight) > self.MAX_PATHS:
                    unsupported = unsupported or f"more than {self.MAX_PATHS} paths"
                if unsupported is None:
                    for pfx in out['pending']:
                        inflight.append(pool.apply_async(_explore_prefix, (pfx,)))
                touched |= set(out['touched'])
                ghost_hits |= set(out['ghost_hits'])
                trivial += out['trivial']
                if out['ret'] is not None:
                    nret += 1
                    if out['ret'] is True:
                        cover = True
                    elif out['ret'] == 'not-refuted' and cover is False:
                        cover = 'not-refuted'
                for (name, kind, line, info, v, b, m, ms) in out['rows']:
                    a = agg.get(name)
                    if a is None:
                        a = {'name': name, 'kind': kind, 'line': line, 'info': info, 'instances': 0, 'verdict': 'discharged',
                             'ms': 0.0, 'backends': [], 'model': None}
                        agg[name] = a
                        order.append(name)
                    a['instances'] += 1
                    a['ms'] = round(a['ms'] + ms, 2)
                    if b not in a['backends']:
                        a['backends'].append(b)
                    if v == 'refuted':
                        if a['verdict'] != 'refuted':
                            a['model'], a['line'], a['info'] = m, line, info
                        a['verdict'] = 'refuted'
                    elif v == 'undecided' and a['verdict'] == 'discharged':
                        a['verdict'] = 'undecided'
        res.paths = npaths
        if unsupported is not None:
            res.status = 'out_of_reach'
            res.reason = unsupported
            res.wall_s = time.time() - t0
            return res
        missing_anchor = [t for t in list(c.ghost_after) + list(c.ghost_before) if t not in ghost_hits]
        if missing_anchor:
            res.status = 'unbound'
            res.reason = f"ghost anchor statement(s) not found in the body: {missing_anchor}"
            return res
        for name in sorted(touched):
            if name not in agg:
                agg[name] = {'name': name, 'kind': name.split('#')[1].split('[')[0], 'line': 0, 'info': '', 'instances': 0,
                             'verdict': 'discharged', 'ms': 0.0, 'backends': ['simplifier'], 'model': None}
                order.append(name)
        res.obligations = [agg[n] for n in order]
        res.trivial = trivial
        res.return_paths = nret
        res.cover_ok = cover
        res.explore_s = None
        res.wall_s = time.time() - t0
        return res

    def run_target(self, fi, c: Contract, return_pcs):
        vars_ = {}
        a = fi.node.args
        names = [x.arg for x in a.posonlyargs + a.args + a.kwonlyargs]
        dfr = Frame(None, None, {}, spec=False)
        dfr.module = fi.module
        dfr.noforks = True
        for n in names:
            if n in c.params:
                ty = parse_type(c.params[n])
                v = fresh(ty, n)
                vars_[n] = v
                self.assume_type(v, ty)
                if isinstance(v, VRef) and n == names[0] and c.self_cls is not None:
                    v.cls, v.exact, v.nullable = c.self_cls, True, False
                    self.assume(self.cls_of(v.z) == self.repo.class_ids[c.self_cls])
            else:
                # defaulted parameter
                vars_[n] = None
        defaults = a.defaults
        pos = [x.arg for x in a.posonlyargs + a.args]
        for i, d in enumerate(defaults):
            n = pos[len(pos) - len(defaults) + i]
            if vars_.get(n) is None:
                vars_[n] = self.ev(d, dfr)
        for n, d in zip([x.arg for x in a.kwonlyargs], a.kw_defaults):
            if vars_.get(n) is None and d is not None:
                vars_[n] = self.ev(d, dfr)
        if c.slice_names:
            vars_ = {n: v for n, v in vars_.items() if v is not None}
            for n, ts in c.params.items():
                if not n.startswith('$') and n not in vars_:
                    ty = parse_type(ts)
                    vars_[n] = fresh(ty, n)
                    self.assume_type(vars_[n], ty)
            names = []
        for n in names:
            if vars_.get(n) is None:
                raise Unsupported(f"parameter {n} of {fi.qualname} has no declared type in the contract")
        if a.vararg is not None:
            vars_[a.vararg.arg] = VTuple([])
        if a.kwarg is not None:
            vars_[a.kwarg.arg] = VOpaque({}, 'kwargs')
        for n, ts in c.params.items():
            if n.startswith('$'):      # ghost parameter
                ty = parse_type(ts)
                vars_[n[1:]] = fresh(ty, n[1:])
                self.assume_type(vars_[n[1:]], ty)
        closure = None
        if '.' in fi.qualname and self.repo.function(fi.qualname) is None and c.locals:
            # nested function: free variables of the enclosing scope are declared in `locals`
            closure = Frame(None, None, {}, spec=False)
            closure.module = fi.module
            for n, ts in c.locals.items():
                if ts.startswith('func:'):
                    closure.vars[n] = VCallable('contractfn', key=ts[5:])
                else:
                    closure.vars[n] = fresh(parse_type(ts), n)
        fr = Frame(fi, fi.cls, vars_, spec=False, parent=closure)
        fr.contract = c
        fr.entry_vars = dict(vars_)
        self.root_frame = fr
        # global axioms and preconditions
        sf = self.spec_env(fr)
        for ax in self.reg.axioms:
            self.assume(self.ev_spec(ax, sf))
        for pre in c.requires:
            self.assume(self.ev_spec(pre, sf))
        fr.old_heap = dict(self.heap)
        old_heap = fr.old_heap
        if c.ghost_init:
            self.run_ghost(c.ghost_init, fr)
        if fi.is_generator():
            fr.out = VOpaque(None, 'emptyout')
            if c.yields:
                fr.out = VSeq(z3.IntVal(0), fresh(parse_type(c.yields), 'yield0', 1), 'list')
        body = fi.node.body
        if c.slice_names:
            from .stmt import assigned_names
            wanted = set(c.slice_names)
            body = [st for st in fi.node.body if assigned_names([st]) & wanted]
            if not body:
                raise Unsupported(f"slice on {sorted(wanted)} selects no statement")
            self.slice_lines = [st.lineno for st in body]
        try:
            try:
                self.ex_block(body, fr)
                ret = VNone()
            except ReturnSig as r:
                ret = r.value
        except RaiseSig as r:
            self.check_raise(r, c, fr)
            return
        if fr.out is not None:
            if isinstance(fr.out, VOpaque):
                ety = parse_type(c.yields) if c.yields else T_INT
                ret = VSeq(z3.IntVal(0), fresh(ety, 'noyield', 1), 'list')
            else:
                ret = fr.out
        return_pcs.append(list(self.pc))
        # postconditions
        if c.returns is not None:
            rty = parse_type(c.returns)
            if rty.kind == 'seq' and isinstance(ret, (VView, VTuple)):
                ret = self.materialize(ret) if not (isinstance(ret, VTuple) and not ret.items) else \
                    VSeq(z3.IntVal(0), fresh(rty.elem, 'emptyret', 1), rty.skind)
            if rty.kind == 'ref' and isinstance(ret, VNone):
                ret = VRef(0, rty.cls)
            if rty.kind == 'optint':
                ret = coerce(ret, VOptInt(True, 0))
        sf = self.spec_env(fr, {'result': ret})
        sf.old_heap = old_heap
        # in postconditions parameter names denote the values at entry (parameters may be re-assigned in the body)
        for n in c.params:
            if n in fr.entry_vars and not c.slice_names:
                sf.vars[n] = fr.entry_vars[n]
        for k, post in enumerate(c.ensures):
            g = self.ev_spec(post, sf)
            self.oblige('post', g, fr, None, tag=str(k), info=post)
        for k, post in enumerate(c.internal_ensures):
            g = self.ev_spec(post, sf)
            self.oblige('post', g, fr, None, tag=f"i{k}", info=post)
        self.check_frame(c, fr, old_heap, sf)

    def check_raise(self, r: RaiseSig, c: Contract, fr):
        allowed = None
        for exc, cond in c.raises.items():
            if exc_is_subclass(r.cls, exc, self.repo):
                allowed = (exc, cond)
                break
        node = r.node
        if allowed is None:
            self.oblige('no-raise', z3.BoolVal(False), fr, node, tag=f"{r.cls}@{self.ordinal(self.target, node, None) if node is not None else 0}",
                        info=f"uncaught {r.cls} at line {getattr(node, 'lineno', self.cur_line)}")
            return
        exc, cond = allowed
        if cond is not None:
            sf = self.spec_env(fr)
            sf.vars.update(fr.entry_vars)
            saved = self.heap
            self.heap = dict(fr.old_heap)
            try:
                g = self.ev_spec(cond, sf)
            finally:
                self.heap = saved
            self.oblige('raise-cond', g, fr, node, tag=f"{r.cls}", info=f"{exc} only if {cond}")
        for k, post in enumerate(c.ensures_raise.get(exc, [])):
            sf = self.spec_env(fr)
            self.oblige('post-raise', self.ev_spec(post, sf), fr, node, tag=f"{exc}.{k}", info=post)

    def check_frame(self, c: Contract, fr, old_heap, sf):
        whole = {m for m in c.modifies if '@' not in m}
        at = {}
        for m in c.modifies:
            if '@' in m:
                f, e = m.split('@', 1)
                at.setdefault(f, []).append(e)
        for f, tree in self.heap.items():
            if f == '__cls__' or f in whole:
                continue
            old = old_heap.get(f)
            if old is None or old is tree:
                continue
            if self._same_tree(old, tree):
                continue
            r = self.fresh_int('fr')
            conds = [r > 0, r < self.alloc0]
            for e in at.get(f, []):
                saved = self.heap
                self.heap = dict(old_heap)
                try:
                    ev = self.ev_spec_value(e, sf)
                finally:
                    self.heap = saved
                conds.append(r != ev.z)
            eq = self.veq(sel(tree, r), sel(old, r), node_eq=False)
            self.oblige('frame', z3.ForAll([r], z3.Implies(z3.And(conds), eq)), fr, None, tag=f,
                        info=f"field {f} unchanged outside modifies")

    def _same_tree(self, a, b):
        la, lb = list(leaves(a)), list(leaves(b))
        return len(la) == len(lb) and all(x.eq(y) for x, y in zip(la, lb))

    # ------------------------------------------------------------------------------------------- discharge
    def discharge(self, res: FunctionResult):
        agg = {}
        order = []
        refuted_names = set()
        workers = int(os.environ.get('PYVC_INNER_WORKERS', '1'))
        presolved = {}
        if workers > 1 and len(self.obligations) > 6:
            # obligations are independent: discharge them in forked workers (the z3 terms are inherited by fork)
            import multiprocessing as mp
            global _FORK_VC
            _FORK_VC = self
            try:
                with mp.get_context('fork').Pool(workers) as pool:
                    for i, r in enumerate(pool.map(_solve_index, range(len(self.obligations)), chunksize=1)):
                        presolved[i] = r
            except Exception:
                presolved = {}
        for i, ob in enumerate(self.obligations):
            t0 = time.time()
            if ob.name in refuted_names:
                agg[ob.name]['instances'] += 1
                continue
            if i in presolved:
                verdict, backend, model, ms = presolved[i]
            else:
                verdict, backend, model = self.solve(ob)
                ms = (time.time() - t0) * 1000
            if verdict == 'refuted':
                refuted_names.add(ob.name)
            ob.ms = ms
            ob.verdict, ob.backend, ob.model = verdict, backend, model
            a = agg.get(ob.name)
            if a is None:
                a = {'name': ob.name, 'kind': ob.kind, 'line': ob.line, 'info': ob.info, 'instances': 0,
                     'verdict': 'discharged', 'ms': 0.0, 'backends': [], 'model': None}
                agg[ob.name] = a
                order.append(ob.name)
            a['instances'] += 1
            a['ms'] = round(a['ms'] + ob.ms, 2)
            if backend not in a['backends']:
                a['backends'].append(backend)
            if verdict == 'refuted':
                if a['verdict'] != 'refuted':
                    a['model'] = model
                    a['line'] = ob.line
                    a['info'] = ob.info
                a['verdict'] = 'refuted'
            elif verdict == 'undecided' and a['verdict'] == 'discharged':
                a['verdict'] = 'undecided'
        for name in sorted(self.touched):
            if name not in agg:
                agg[name] = {'name': name, 'kind': name.split('#')[1].split('[')[0], 'line': 0, 'info': '',
                             'instances': 0, 'verdict': 'discharged', 'ms': 0.0, 'backends': ['simplifier'],
                             'model': None}
                order.append(name)
        res.obligations = [agg[n] for n in order]

    def solve(self, ob: Obligation):
        dump = os.environ.get('PYVC_DUMP')
        if dump and dump in getattr(ob, 'name', ''):
            s = z3.Solver()
            for p in ob.pc:
                s.add(p)
            s.add(z3.Not(ob.goal))
            with open(f"/tmp/pyvc_dump_{abs(hash(ob.name)) % 10000}.smt2", 'w') as f:
                f.write(s.to_smt2())
            with open(f"/tmp/pyvc_dump_{abs(hash(ob.name)) % 10000}.txt", 'w') as f:
                for p in ob.pc:
                    f.write(str(p).replace('\n', ' ') + '\n')
                f.write('GOAL ' + str(ob.goal) + '\n')
        # first attempt: quantifier-free hypotheses only (sound: fewer hypotheses), fast for simple goals
        qf = [p for p in ob.pc if not _has_quant(p)]
        if len(qf) < len(ob.pc) and not _has_quant(ob.goal):
            s0 = z3.Solver()
            s0.set('timeout', min(2000, self.budget_ms))
            for p in qf:
                s0.add(p)
            s0.add(z3.Not(ob.goal))
            if s0.check() == z3.unsat:
                return 'discharged', 'z3-5.1.0', None
        # relevance-ranked subsets of the quantified hypotheses (sound: dropping hypotheses), smallest first
        quants = [p for p in ob.pc if _has_quant(p)]
        if 3 < len(quants) <= 25 and not _has_quant(ob.goal):
            # few quantified hypotheses: the few most relevant ones first (recursive definitions such as the prefix sums of
            # `sumof` can keep the instantiation engine busy on goals that do not need them)
            ranked = self.rank_hypotheses(ob.goal, ob.pc, quants)
            for nsel in (3, 6, 12):
                if nsel >= len(quants):
                    break
                s1 = z3.Solver()
                s1.set('timeout', min(1500, self.budget_ms))
                for p in qf:
                    s1.add(p)
                for p in ranked[:nsel]:
                    s1.add(p)
                s1.add(z3.Not(ob.goal))
                if s1.check() == z3.unsat:
                    return 'discharged', 'z3-5.1.0', None
        if len(quants) > 25:
            # quick attempt with everything: most obligations discharge at once
            s2 = z3.Solver()
            s2.set('timeout', min(2500, self.budget_ms))
            for p in ob.pc:
                s2.add(p)
            s2.add(z3.Not(ob.goal))
            r2 = s2.check()
            if r2 == z3.unsat:
                return 'discharged', 'z3-5.1.0', None
            if r2 == z3.sat:
                return 'refuted', 'z3-5.1.0', self.model_summary(s2.model())
            ranked = self.rank_hypotheses(ob.goal, ob.pc, quants)
            for nsel in (15, 40, 100, 250):
                if nsel >= len(quants):
                    break
                s1 = z3.Solver()
                s1.set('timeout', min(4000, self.budget_ms))
                for p in qf:
                    s1.add(p)
                for p in ranked[:nsel]:
                    s1.add(p)
                s1.add(z3.Not(ob.goal))
                if s1.check() == z3.unsat:
                    return 'discharged', 'z3-5.1.0', None
        s = z3.Solver()
        s.set('timeout', self.budget_ms)
        for p in ob.pc:
            s.add(p)
        s.add(z3.Not(ob.goal))
        r = s.check()
        if r == z3.unsat:
            return 'discharged', 'z3-5.1.0', None
        if r == z3.sat:
            return 'refuted', 'z3-5.1.0', self.model_summary(s.model())
        # fall back: other installed solvers on the same SMT-LIB text
        smt = s.to_smt2()
        for name, cmd in (('cvc5-1.0.3', ['/usr/bin/cvc5', '--lang=smt2', f'--tlimit={self.budget_ms}']),
                          ('z3-4.8.12', ['/usr/bin/z3', '-smt2', f'-T:{max(1, self.budget_ms // 1000)}'])):
            try:
                with tempfile.NamedTemporaryFile('w', suffix='.smt2', delete=False) as f:
                    f.write(smt)
                    path = f.name
                out = subprocess.run(cmd + [path], capture_output=True, text=True,
                                     timeout=self.budget_ms / 1000 + 5).stdout.strip().splitlines()
                os.unlink(path)
                if out and out[0] == 'unsat':
                    return 'discharged', name, None
                if out and out[0] == 'sat':
                    return 'refuted', name, {'note': 'model not extracted from external solver'}
            except Exception:
                try:
                    os.unlink(path)
                except Exception:
                    pass
        return 'undecided', 'z3-5.1.0+cvc5+z3-4.8', None

    def rank_hypotheses(self, goal, pc, quants):
        """Order quantified hypotheses by weighted overlap of uninterpreted symbols with the goal (rare symbols count
        more), with one round of closure through the best-ranked hypotheses."""
        freq = {}
        for p in pc:
            for sy in _symbols(p):
                freq[sy] = freq.get(sy, 0) + 1
        G = set(_symbols(goal))

        def score(p, G):
            return sum(1.0 / freq.get(sy, 1) for sy in _symbols(p) if sy in G)
        first = sorted(quants, key=lambda p: -score(p, G))
        G2 = set(G)
        for p in first[:12]:
            G2 |= _symbols(p)
        return sorted(quants, key=lambda p: -(2 * score(p, G) + score(p, G2)))

    def model_summary(self, m):
        out = {}
        for d in m.decls():
            if d.arity() == 0:
                v = m[d]
                if z3.is_int_value(v) or z3.is_true(v) or z3.is_false(v):
                    out[d.name()] = str(v)
        self.last_model = m
        return out
