"""Statement execution, loops (cut at invariants) and generators."""
import ast
import z3

from .values import *
from .engine import PathEnd, ReturnSig, BreakSig, ContinueSig, RaiseSig, Frame, exc_is_subclass
from .spec import LoopSpec


def assigned_names(nodes):
    names = set()
    stack = list(nodes)
    while stack:
        n = stack.pop()
        if isinstance(n, (ast.FunctionDef, ast.Lambda, ast.ClassDef)):
            continue
        if isinstance(n, ast.Name) and isinstance(n.ctx, (ast.Store, ast.Del)):
            names.add(n.id)
        tg = []
        if isinstance(n, ast.Assign):
            tg = n.targets
        elif isinstance(n, (ast.AugAssign, ast.AnnAssign)):
            tg = [n.target]
        for t in tg:
            while isinstance(t, (ast.Subscript,)):
                t = t.value
            if isinstance(t, ast.Name):
                names.add(t.id)
        if isinstance(n, ast.Call) and isinstance(n.func, ast.Attribute) and isinstance(n.func.value, ast.Name) \
                and n.func.attr in ('append', 'extend', 'add', 'pop', 'insert', 'clear', 'update', 'remove'):
            names.add(n.func.value.id)
        if isinstance(n, (ast.ListComp, ast.GeneratorExp, ast.SetComp, ast.DictComp)):
            continue
        stack.extend(ast.iter_child_nodes(n))
    return names


class StmtMixin:
    def ex_block(self, stmts, fr):
        for s in stmts:
            self.ex(s, fr)

    def ex(self, node, fr):
        self.cur_line = node.lineno
        m = getattr(self, 'ex_' + type(node).__name__, None)
        if m is None:
            raise Unsupported(f"statement {type(node).__name__} at line {node.lineno}")
        c = fr.contract
        if c is not None and (c.ghost_after or c.ghost_before) and isinstance(node, (ast.Assign, ast.Expr, ast.AugAssign,
                                                                                   ast.AnnAssign, ast.Return)):
            text = ast.unparse(node)
            for key in c.ghost_before:
                if text.startswith(key):
                    self.run_ghost(c.ghost_before[key], fr)
                    self.ghost_hits.add(key)
            for key in c.ghost_after:
                if text.startswith(key):
                    r = m(node, fr)
                    self.run_ghost(c.ghost_after[key], fr)
                    self.ghost_hits.add(key)
                    return r
        return m(node, fr)

    def run_ghost(self, stmts, fr):
        for g in stmts:
            key = ('ghost', g)
            if key not in self._spec_cache:
                self._spec_cache[key] = ast.parse(g.strip()).body
            for st in self._spec_cache[key]:
                saved = fr.contract
                fr.contract = None      # ghost statements are not themselves instrumented
                try:
                    self.ex(st, fr)
                finally:
                    fr.contract = saved

    def ex_Pass(self, node, fr):
        pass

    def ex_Expr(self, node, fr):
        if isinstance(node.value, ast.Constant):
            return  # docstring
        if isinstance(node.value, ast.Yield):
            return self.do_yield(node.value, fr)
        if isinstance(node.value, ast.YieldFrom):
            return self.do_yield_from(node.value, fr)
        if self.is_dropped_call(node.value, fr):
            return
        self.ev(node.value, fr)

    def is_dropped_call(self, e, fr):
        """log.debug(...) etc.: dropped by extraction (listed in DESIGN section 2.2)."""
        if isinstance(e, ast.Call) and isinstance(e.func, ast.Attribute) and isinstance(e.func.value, ast.Name):
            if e.func.value.id in self.reg.opaque_names and e.func.value.id not in fr.vars:
                return True
        return False

    def do_yield(self, y, fr):
        if fr.out is None:
            raise Unsupported("yield outside a generator frame")
        v = self.ev(y.value, fr) if y.value is not None else VNone()
        if isinstance(fr.out, VOpaque):
            fr.out = VSeq(z3.IntVal(0), fresh(type_of(v), self.fresh_name('out'), 1), 'list')
        fr.out = seq_append(fr.out, v)

    def do_yield_from(self, y, fr):
        v = self.iter_source(self.ev(y.value, fr), fr, y)
        if isinstance(v, VTuple):
            for it in v.items:
                if isinstance(fr.out, VOpaque):
                    fr.out = VSeq(z3.IntVal(0), fresh(type_of(it), self.fresh_name('out'), 1), 'list')
                fr.out = seq_append(fr.out, it)
            return
        if isinstance(fr.out, VOpaque):
            fr.out = self.materialize(v) if isinstance(v, VView) else VSeq(v.n, v.elem, 'list')
            return
        fr.out = self.materialize(self.seq_concat(fr.out, v))

    def ex_Assign(self, node, fr):
        root = fr
        while root is not None and root.contract is None and getattr(root, 'caller', None) is not None:
            root = root.caller
        dl = getattr(fr.contract, 'dropped_locals', None) if fr.contract is not None else None
        if dl and len(node.targets) == 1 and isinstance(node.targets[0], ast.Name) and node.targets[0].id in dl:
            # progress-bar bookkeeping named by the contract: dropped by extraction (DESIGN 2.2), never evaluated
            fr.vars[node.targets[0].id] = VOpaque(None, 'dropped')
            return
        v = self.ev(node.value, fr)
        for t in node.targets:
            self.assign(t, v, fr)

    def ex_AnnAssign(self, node, fr):
        if node.value is None:
            return
        v = self.ev(node.value, fr)
        self.assign(node.target, v, fr)

    def ex_AugAssign(self, node, fr):
        load = ast.copy_location(self._as_load(node.target), node.target)
        cur = self.ev(load, fr)
        rhs = self.ev(node.value, fr)
        if isinstance(cur, (VSeq, VView)) and isinstance(node.op, ast.Add):
            v = self.materialize(self.seq_concat(cur, self.iter_source(rhs, fr, node)))
        else:
            v = self.binop(node.op, cur, rhs, fr, node)
        self.assign(node.target, v, fr)

    def _as_load(self, t):
        if isinstance(t, ast.Name):
            return ast.Name(id=t.id, ctx=ast.Load())
        if isinstance(t, ast.Attribute):
            return ast.Attribute(value=t.value, attr=t.attr, ctx=ast.Load())
        if isinstance(t, ast.Subscript):
            return ast.Subscript(value=t.value, slice=t.slice, ctx=ast.Load())
        raise Unsupported("augmented assignment target")

    def assign(self, target, v, fr):
        if isinstance(target, ast.Name):
            if isinstance(v, VSeq) and v.skind == 'list':
                pass
            fr.vars[target.id] = v
        elif isinstance(target, (ast.Tuple, ast.List)):
            self.bind_target_assign(target, v, fr)
        elif isinstance(target, ast.Attribute):
            obj = self.ev(target.value, fr)
            attr = self.mangle(target.attr, fr)
            self.setattr(obj, attr, v, fr, target)
        elif isinstance(target, ast.Subscript):
            self.assign_subscript(target, v, fr)
        else:
            raise Unsupported(f"assignment target {type(target).__name__}")

    def bind_target_assign(self, target, v, fr):
        if isinstance(v, VTuple):
            items = v.items
        elif isinstance(v, (VSeq, VView)):
            self.oblige('no-raise', v.n == len(target.elts), fr, target, info='unpack arity')
            self.assume(v.n == len(target.elts))
            items = [seq_get(v, z3.IntVal(k)) for k in range(len(target.elts))]
        else:
            raise Unsupported(f"unpack of {v!r}")
        if len(items) != len(target.elts):
            raise Unsupported("unpack arity mismatch")
        for t, it in zip(target.elts, items):
            self.assign(t, it, fr)

    def setattr(self, obj, attr, v, fr, node):
        if isinstance(obj, VRef):
            if obj.nullable:
                self.oblige('none-deref', obj.z != 0, fr, node, info=f"attribute store {attr!r} on possibly-None")
                self.assume(obj.z != 0)
            if obj.cls is not None and obj.cls in self.repo.classes:
                st = self.repo.lookup_setter(obj.cls, attr)
                if st is not None:
                    self.call_function(st, [obj, v], {}, fr, node, selfv=obj)
                    return
            if isinstance(v, VOpaque) and v.tag == 'emptylist':
                ty = self.field_type(attr, obj.cls)
                v = VSeq(z3.IntVal(0), fresh(ty.elem, self.fresh_name('empty'), 1), ty.skind)
            if isinstance(v, VTuple) and self._has_field_type(attr, obj.cls) and \
                    self.field_type(attr, obj.cls).kind == 'seq':
                ty = self.field_type(attr, obj.cls)
                s = VSeq(z3.IntVal(0), fresh(ty.elem, self.fresh_name('tup'), 1), 'tuple')
                for it in v.items:
                    s = seq_append(s, it)
                v = s
            if isinstance(v, (VOpaque, VCallable)) and not self._has_field_type(attr, obj.cls):
                # dropped / opaque attribute (callbacks, printers): keep python-side
                self.opaque_attrs[(str(obj.z), attr)] = v
                return
            self.heap_set(obj, attr, v)
            return
        if isinstance(obj, VOpaque):
            return
        if isinstance(obj, VRec):
            raise Unsupported(f"mutation of immutable record {obj.cls}.{attr}")
        raise Unsupported(f"attribute store on {obj!r}")

    def assign_subscript(self, target, v, fr):
        base = self.ev(target.value, fr)
        if isinstance(base, VOpaque):
            return
        if isinstance(target.slice, ast.Slice):
            raise Unsupported("slice assignment")
        if not isinstance(base, VSeq):
            if isinstance(base, (VRef,)):
                idx = self.ev(target.slice, fr)
                self.call_method(base, '__setitem__', [idx, v], {}, fr, target)
                return
            raise Unsupported(f"subscript store into {base!r}")
        idx = self.ev(target.slice, fr)
        i = self.norm_index(base, self.as_int(idx), fr, target)
        if isinstance(v, (VView, VTuple)) and isinstance(sel(base.elem, i), VSeq):
            v = self.materialize(v)
        new = seq_set(base, i, v)
        self.write_back(target.value, new, fr)

    def write_back(self, node, newval, fr):
        """Store an updated (functional) sequence value back to where the list object lives."""
        if isinstance(node, ast.Name):
            f = fr
            while f is not None and node.id not in f.vars:
                f = f.parent
            (f or fr).vars[node.id] = newval
        elif isinstance(node, ast.Attribute):
            obj = self.ev(node.value, fr)
            self.heap_set_raw(obj, self.mangle(node.attr, fr), newval)
        elif isinstance(node, ast.Subscript):
            outer = self.ev(node.value, fr)
            if not isinstance(outer, VSeq):
                raise Unsupported("nested write-back into non-array sequence")
            idx = self.ev(node.slice, fr)
            i = self.norm_index(outer, self.as_int(idx), fr, node, check=False)
            self.write_back(node.value, seq_set(outer, i, newval), fr)
        else:
            raise Unsupported("write-back target")

    def heap_set_raw(self, obj, attr, v):
        tree = self.heap_tree(attr, obj.cls, like=v)
        self.heap[attr] = sto(tree, obj.z, v)

    def ex_Return(self, node, fr):
        v = self.ev(node.value, fr) if node.value is not None else VNone()
        raise ReturnSig(v)

    def ex_Raise(self, node, fr):
        if node.exc is None:
            raise RaiseSig(getattr(fr, 'handling', 'Exception'), None, node)
        e = node.exc
        if isinstance(e, ast.Call):
            for a in e.args:
                self.ev(a, fr)
            cls = e.func.id if isinstance(e.func, ast.Name) else (e.func.attr if isinstance(e.func, ast.Attribute) else None)
        elif isinstance(e, ast.Name):
            v = fr.vars.get(e.id)
            cls = v.py if isinstance(v, VOpaque) and v.tag == 'excobj' else e.id
        else:
            cls = None
        if cls is None:
            raise Unsupported("raise of computed exception")
        raise RaiseSig(cls, None, node)

    def ex_Assert(self, node, fr):
        v = self.ev(node.test, fr)
        t = self.truth(v, fr)
        self.oblige('assert', t if z3.is_expr(t) else z3.BoolVal(t), fr, node)
        self.assume(t)

    def ex_If(self, node, fr):
        if self.test(node.test, fr):
            self.ex_block(node.body, fr)
        else:
            self.ex_block(node.orelse, fr)

    def ex_Break(self, node, fr):
        raise BreakSig()

    def ex_Continue(self, node, fr):
        raise ContinueSig()

    def ex_FunctionDef(self, node, fr):
        from .source import FunctionInfo
        fi = FunctionInfo(fr.module, None, node, fr.fi.path if fr.fi else '')
        fi.qualname = (fr.fi.qualname + '.' if fr.fi else '') + node.name
        fr.vars[node.name] = VCallable('func', fi=fi, closure=fr)

    def ex_With(self, node, fr):
        for item in node.items:
            ce = item.context_expr
            v = None
            if self.is_dropped_ctx(ce, fr):
                v = VOpaque('ctx', 'dropped')
            else:
                v = self.ev(ce, fr)
                if isinstance(v, (VRef, VRec)):
                    v = self.call_method(v, '__enter__', [], {}, fr, node)
            if item.optional_vars is not None:
                self.assign(item.optional_vars, v, fr)
        self.ex_block(node.body, fr)

    def is_dropped_ctx(self, e, fr):
        # X.tqdm(...), printer.color(...).bright() ... on dropped objects
        root = e
        while isinstance(root, (ast.Call, ast.Attribute)):
            root = root.func if isinstance(root, ast.Call) else root.value
        if isinstance(root, ast.Name):
            if root.id in self.reg.opaque_names and root.id not in fr.vars:
                return True
            v = fr.vars.get(root.id)
            if isinstance(v, VOpaque) and v.tag in ('dropped', 'opaque'):
                return True
        return False

    def ex_Try(self, node, fr):
        try:
            try:
                self.ex_block(node.body, fr)
            except RaiseSig as r:
                for h in node.handlers:
                    if self.handler_matches(h, r.cls):
                        if fr.fi is not None and fr.fi.qualname == self.target.qualname:
                            self._touch('handled', fr, node, f"{r.cls}@L{self.ordinal(fr.fi, node, None)}")
                        if h.name:
                            fr.vars[h.name] = VOpaque(r.cls, 'excobj')
                        prev = getattr(fr, 'handling', None)
                        fr.handling = r.cls
                        try:
                            self.ex_block(h.body, fr)
                        finally:
                            fr.handling = prev
                        break
                else:
                    raise
            else:
                self.ex_block(node.orelse, fr)
        except (RaiseSig, ReturnSig, BreakSig, ContinueSig):
            if node.finalbody:
                self.ex_block(node.finalbody, fr)
            raise
        else:
            if node.finalbody:
                self.ex_block(node.finalbody, fr)

    def handler_matches(self, h, cls):
        if h.type is None:
            return True
        types = h.type.elts if isinstance(h.type, ast.Tuple) else [h.type]
        for t in types:
            name = t.id if isinstance(t, ast.Name) else (t.attr if isinstance(t, ast.Attribute) else None)
            if name is None:
                raise Unsupported("computed except clause")
            if exc_is_subclass(cls, name, self.repo):
                return True
        return False

    def ex_Delete(self, node, fr):
        for t in node.targets:
            if isinstance(t, ast.Name):
                fr.vars.pop(t.id, None)
            else:
                raise Unsupported("del of non-name")

    # ------------------------------------------------------------------------------------------- loops
    def loop_spec(self, node, fr):
        if fr.contract is None:
            return None, None
        ordn = self.loop_ordinals(fr.fi, fr.contract).get(id(node))
        return fr.contract.loops.get(ordn), ordn

    def loop_ordinals(self, fi, contract=None):
        key = ('loops', fi.qualname)
        if key not in self._ord_cache:
            table = {}
            k = [0]

            def visit(n):
                if isinstance(n, (ast.For, ast.While)):
                    table[id(n)] = k[0]
                    k[0] += 1
                for c in ast.iter_child_nodes(n):
                    if isinstance(c, (ast.FunctionDef, ast.Lambda, ast.ClassDef)) and c is not fi.node:
                        continue
                    visit(c)
            if contract is not None and contract.slice_names:
                wanted = set(contract.slice_names)
                for st in fi.node.body:
                    if assigned_names([st]) & wanted:
                        visit(st)
            else:
                visit(fi.node)
            self._ord_cache[key] = table
        return self._ord_cache[key]

    def ex_While(self, node, fr):
        spec, ordn = self.loop_spec(node, fr)
        if spec is None:
            return self.unroll_while(node, fr)
        self.cut_loop(node, fr, spec, ordn, kind='while')

    def unroll_while(self, node, fr, limit=6):
        for _ in range(limit):
            if not self.test(node.test, fr):
                self.ex_block(node.orelse, fr)
                return
            try:
                self.ex_block(node.body, fr)
            except BreakSig:
                return
            except ContinueSig:
                pass
        raise Unsupported(f"while loop at line {node.lineno} has no invariant and did not finish in {limit} unrollings")

    def ex_For(self, node, fr):
        spec, ordn = self.loop_spec(node, fr)
        if spec is not None and spec.unroll is None:
            return self.cut_loop(node, fr, spec, ordn, kind='for')
        src = self.iter_source(self.ev(node.iter, fr), fr, node)
        if isinstance(src, VTuple):
            items = src.items
        else:
            n = z3.simplify(src.n)
            lim = spec.unroll if spec is not None else None
            if z3.is_int_value(n) and n.as_long() <= 64:
                items = [seq_get(src, z3.IntVal(k)) for k in range(n.as_long())]
            elif lim is not None:
                # bounded unrolling with an unwinding assertion (recorded as such)
                self.oblige('unwind', src.n <= lim, fr, node, tag=f"L{ordn}", info='loop bound')
                items = None
                for k in range(lim):
                    if not self.branch(src.n > k, fr):
                        break
                    self.assign(node.target, seq_get(src, z3.IntVal(k)), fr)
                    try:
                        self.ex_block(node.body, fr)
                    except BreakSig:
                        return
                    except ContinueSig:
                        pass
                else:
                    self.assume(src.n <= lim)
                self.ex_block(node.orelse, fr)
                return
            else:
                raise Unsupported(f"for loop at line {node.lineno} over symbolic sequence has no invariant")
        for it in items:
            self.assign(node.target, it, fr)
            try:
                self.ex_block(node.body, fr)
            except BreakSig:
                return
            except ContinueSig:
                continue
        self.ex_block(node.orelse, fr)

    def spec_env(self, fr, extra=None):
        sf = Frame(fr.fi, fr.cls, dict(fr.vars), spec=True, parent=fr.parent)
        sf.module = fr.module
        sf.entry_vars = fr.entry_vars
        sf.old_heap = fr.old_heap
        sf.noforks = True
        if fr.out is not None and not isinstance(fr.out, VOpaque):
            sf.vars['yielded'] = fr.out
        if extra:
            sf.vars.update(extra)
        return sf

    def cut_loop(self, node, fr, spec: LoopSpec, ordn, kind):
        tagp = f"L{ordn}"
        ghost = {}
        src = None
        idx_name = spec.index or f"_i{ordn}"
        if kind == 'for':
            src = self.iter_source(self.ev(node.iter, fr), fr, node)
            if isinstance(src, VTuple):
                src = self.materialize(src)
            fr.vars[idx_name] = VInt(0)
            fr.vars[f"_src{ordn}"] = src
            self.assume(src.n >= 0)
        # declared types for variables that start as None / are first assigned in the loop
        for name, ts in spec.types.items():
            ty = parse_type(ts)
            cur = fr.vars.get(name)
            if cur is None:
                fr.vars[name] = fresh(ty, self.fresh_name(name))
                self.assume_type(fr.vars[name], ty)
            elif isinstance(cur, VOpaque) and cur.tag in ('emptyset', 'emptylist') and ty.kind == 'seq':
                fr.vars[name] = VSeq(z3.IntVal(0), fresh(ty.elem, self.fresh_name(name + '0'), 1),
                                     'set' if cur.tag == 'emptyset' else ty.skind)
            else:
                fr.vars[name] = coerce(cur, fresh(ty, '_shape'))
        # 1. invariant on entry
        for k, inv in enumerate(spec.invariant):
            g = self.ev_spec(inv, self.spec_env(fr))
            self.oblige('inv-entry', g, fr, node, tag=f"{tagp}.{k}", info=inv)
        # 2. havoc
        body_nodes = list(node.body)
        mod_vars = assigned_names(body_nodes)
        for g in spec.ghost_pre:
            mod_vars |= assigned_names(ast.parse(g.strip()).body)
        c = fr.contract
        if c is not None and (c.ghost_before or c.ghost_after):
            # ghost statements anchored at statements inside this loop body assign ghost variables of the loop
            texts = []
            for b in body_nodes:
                for n in ast.walk(b):
                    if isinstance(n, (ast.Assign, ast.Expr, ast.AugAssign, ast.AnnAssign, ast.Return)):
                        texts.append(ast.unparse(n))
            for table in (c.ghost_before, c.ghost_after):
                for key, stmts in table.items():
                    if any(t.startswith(key) for t in texts):
                        for g in stmts:
                            mod_vars |= assigned_names(ast.parse(g.strip()).body)
        if kind == 'for':
            mod_vars |= assigned_names([node.target])
            mod_vars.add(idx_name)
        for name in sorted(mod_vars):
            cur = fr.vars.get(name)
            if cur is None:
                continue
            if isinstance(cur, (VNone, VOpaque, VCallable)):
                if isinstance(cur, VOpaque) and cur.tag == 'emptylist':
                    raise Unsupported(f"loop variable {name!r} is an empty list literal of unknown element type; "
                                      f"declare it in loop types")
                if isinstance(cur, VNone) and name not in spec.types:
                    raise Unsupported(f"loop variable {name!r} is None on entry; declare its type in the loop spec")
                continue
            if isinstance(cur, VView):
                cur = self.materialize(cur)
            nv = fresh(type_of(cur), self.fresh_name(name))
            if isinstance(nv, VSeq):
                nv.skind = cur.skind
                self.assume(nv.n >= 0)
                self.assume_type(nv, type_of(cur))
            if isinstance(nv, VRef):
                nv.cls, nv.nullable = cur.cls, True if name in spec.types and parse_type(spec.types[name]).nullable else cur.nullable
                self.assume(z3.And(nv.z >= 0))
            fr.vars[name] = nv
        if fr.out is not None and any(isinstance(n, (ast.Yield, ast.YieldFrom)) for b in body_nodes for n in ast.walk(b)):
            if isinstance(fr.out, VOpaque):
                raise Unsupported("generator loop needs the element type: declare `yields` in the contract")
            no = fresh(type_of(fr.out), self.fresh_name('yielded'))
            self.assume(no.n >= 0)
            self.assume_type(no, type_of(fr.out))
            fr.out = no
        heap_mod = set(spec.modifies) | self.syntactic_field_writes(body_nodes, fr)
        heap_before = dict(self.heap)
        alloc_before = self.alloc
        whole = {f for f in heap_mod if '@' not in f}
        for f in sorted(heap_mod):
            fname = f.split('@')[0]
            if '@' in f:
                if fname in whole:
                    continue
                ref = self.ev_spec_value(f.split('@', 1)[1], self.spec_env(fr))
                tree = self.heap_tree(fname, getattr(ref, 'cls', None))
                fv = fresh(type_of(tree_elem(tree)), self.fresh_name('hv.' + fname))
                if isinstance(fv, VSeq):
                    self.assume(fv.n >= 0)
                self.heap[fname] = sto(tree, ref.z, fv)
            elif fname in self.heap or self._has_field_type(fname, None):
                tree = self.heap_tree(fname)
                self.heap[fname] = fresh(type_of(tree_elem(tree)), self.fresh_name('H.' + fname), 1)
        if self.loop_allocates(body_nodes, fr, spec):
            na = self.fresh_int('alloc')
            self.assume(na >= self.alloc)
            self.alloc = na
        havoc_heap = dict(self.heap)
        # 3. assume invariant
        for inv in spec.invariant:
            self.assume(self.ev_spec(inv, self.spec_env(fr)))
        if kind == 'for':
            iv = self.as_int(fr.vars[idx_name])
            self.assume(z3.And(iv >= 0, iv <= src.n))
            guard = iv < src.n
        variant0 = None
        if spec.variant is not None:
            variant0 = self.ev_spec_value(spec.variant, self.spec_env(fr))
        # 4. branch on the guard
        if kind == 'while':
            go = self.test(node.test, fr)
        else:
            go = self.branch(guard, fr)
        if not go:
            self.ex_block(node.orelse, fr)
            return
        if kind == 'for':
            self.assign(node.target, seq_get(src, iv), fr)
            self._ref_facts(fr.vars.get(node.target.id) if isinstance(node.target, ast.Name) else None)
        try:
            if spec.ghost_pre:
                self.run_ghost(spec.ghost_pre, fr)
            self.ex_block(node.body, fr)
        except BreakSig:
            return          # continue after the loop with the current state
        except ContinueSig:
            pass
        if kind == 'for':
            fr.vars[idx_name] = VInt(iv + 1)
        # undeclared heap effects inside the loop body make the cut unsound: out of reach
        for f, tree in self.heap.items():
            if f == '__cls__':
                continue
            if f not in havoc_heap and tree is self.heap_init.get(f):
                continue        # first touched (read) inside the body: same array in every state
            if tree is not havoc_heap.get(f) and f not in {m.split('@')[0] for m in heap_mod}:
                if f in heap_before or True:
                    raise Unsupported(f"loop at line {node.lineno} modifies heap field {f!r} not in its modifies set")
        for k, inv in enumerate(spec.invariant):
            g = self.ev_spec(inv, self.spec_env(fr))
            self.oblige('inv-preserved', g, fr, node, tag=f"{tagp}.{k}", info=inv)
        if variant0 is not None:
            v1 = self.ev_spec_value(spec.variant, self.spec_env(fr))
            self.oblige('variant', z3.And(self.as_int(variant0) >= 0, self.as_int(v1) < self.as_int(variant0)),
                        fr, node, tag=tagp, info=spec.variant)
        raise PathEnd()

    def syntactic_field_writes(self, nodes, fr):
        res = set()
        for n0 in nodes:
            for n in ast.walk(n0):
                targets = []
                if isinstance(n, ast.Assign):
                    targets = n.targets
                elif isinstance(n, (ast.AugAssign, ast.AnnAssign)):
                    targets = [n.target]
                for t in targets:
                    while isinstance(t, ast.Subscript):
                        t = t.value
                    if isinstance(t, ast.Attribute):
                        res.add(self.mangle(t.attr, fr))
                if isinstance(n, ast.Call) and isinstance(n.func, ast.Attribute) and \
                        n.func.attr in ('append', 'extend', 'add', 'pop', 'insert', 'clear') and \
                        isinstance(n.func.value, ast.Attribute):
                    res.add(self.mangle(n.func.value.attr, fr))
        return res

    def loop_allocates(self, nodes, fr, spec):
        return True


def tree_elem(tree):
    """A dimension-0 exemplar of a lifted (dimension-1) tree, for typing."""
    return sel(tree, z3.IntVal(0))
