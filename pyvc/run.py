"""CLI: python -m pyvc.run [--repo /repo] contracts_module [function ...]"""
import argparse, json, sys, time
from .source import Repo
from .verify import VC
import contracts


def main():
    ap = argparse.ArgumentParser()
    ap.add_argument('--repo', default='/repo')
    ap.add_argument('--budget', type=int, default=10000)
    ap.add_argument('--json', action='store_true')
    ap.add_argument('module')
    ap.add_argument('functions', nargs='*')
    a = ap.parse_args()
    reg = contracts.load(a.module)
    repo = Repo(a.repo)
    targets = a.functions or reg.targets
    for q in targets:
        vc = VC(repo, reg, a.budget)
        r = vc.verify(q)
        if a.json:
            print(json.dumps(r.to_json(), indent=1))
            continue
        print(f"== {q}: {r.status} {r.reason} paths={r.paths} wall={r.wall_s:.2f}s explore={getattr(r, 'explore_s', None)}s cover={r.cover_ok} trivial={r.trivial}")
        for o in r.obligations:
            print(f"   {o['verdict']:10s} {o['name']}  x{o['instances']} {o['ms']}ms  L{o['line']} {o['info'][:90]}")
            if o['verdict'] == 'refuted':
                print("      model:", {k: v for k, v in list((o['model'] or {}).items())[:14]})


if __name__ == '__main__':
    main()
