"""Repo indexer: parses the real graphtage sources on every run and exposes functions, classes and the
mechanically extracted class hierarchy (C3 MRO over bases that are defined in the repo)."""
import ast
import hashlib
import os
from typing import Dict, List, Optional, Tuple


class FunctionInfo:
    def __init__(self, module: str, cls: Optional[str], node: ast.FunctionDef, path: str):
        self.module = module
        self.cls = cls
        self.node = node
        self.path = path
        self.name = node.name
        self.qualname = f"{module}.{cls}.{node.name}" if cls else f"{module}.{node.name}"
        self.decorators = [ast.unparse(d) for d in node.decorator_list]

    @property
    def is_property(self):
        return any(d == 'property' for d in self.decorators)

    @property
    def is_setter(self):
        return any(d.endswith('.setter') for d in self.decorators)

    @property
    def is_classmethod(self):
        return 'classmethod' in self.decorators

    @property
    def is_staticmethod(self):
        return 'staticmethod' in self.decorators

    def body_hash(self) -> str:
        body = self.node.body
        if body and isinstance(body[0], ast.Expr) and isinstance(body[0].value, ast.Constant) \
                and isinstance(body[0].value.value, str):
            body = body[1:]
        dump = ast.dump(ast.Module(body=body, type_ignores=[]), annotate_fields=False) + \
            ast.dump(self.node.args, annotate_fields=False) + repr(self.decorators)
        return hashlib.sha256(dump.encode()).hexdigest()[:16]

    def span(self) -> Tuple[int, int]:
        return self.node.lineno, self.node.end_lineno

    def is_generator(self) -> bool:
        for n in _walk_no_nested(self.node):
            if isinstance(n, (ast.Yield, ast.YieldFrom)):
                return True
        return False


def _walk_no_nested(fn: ast.AST):
    """Walk a function body without descending into nested function definitions / lambdas / comprehensions' own
    generator semantic (comprehensions cannot contain yield in py3.8+)."""
    stack = list(ast.iter_child_nodes(fn))
    while stack:
        n = stack.pop()
        yield n
        if isinstance(n, (ast.FunctionDef, ast.AsyncFunctionDef, ast.Lambda, ast.ClassDef)):
            continue
        stack.extend(ast.iter_child_nodes(n))


class ClassInfo:
    def __init__(self, module: str, node: ast.ClassDef):
        self.module = module
        self.name = node.name
        self.node = node
        self.bases: List[str] = []
        for b in node.bases:
            # Generic[...] / SequenceNode[Tuple[T,...]] -> strip subscripts
            while isinstance(b, ast.Subscript):
                b = b.value
            if isinstance(b, ast.Name):
                self.bases.append(b.id)
            elif isinstance(b, ast.Attribute):
                self.bases.append(b.attr)
        self.methods: Dict[str, FunctionInfo] = {}
        self.setters: Dict[str, FunctionInfo] = {}
        self.class_attrs: Dict[str, ast.expr] = {}


class Repo:
    def __init__(self, root: str):
        self.root = root
        self.pkg = os.path.join(root, 'graphtage')
        self.modules: Dict[str, ast.Module] = {}
        self.module_src: Dict[str, str] = {}
        self.classes: Dict[str, ClassInfo] = {}
        self.functions: Dict[str, FunctionInfo] = {}     # 'module.func' and 'module.Class.meth'
        self.module_consts: Dict[str, Dict[str, ast.expr]] = {}
        self._mro_cache: Dict[str, List[str]] = {}
        for fn in sorted(os.listdir(self.pkg)):
            if not fn.endswith('.py'):
                continue
            mod = fn[:-3]
            path = os.path.join(self.pkg, fn)
            with open(path, encoding='utf-8') as f:
                src = f.read()
            try:
                tree = ast.parse(src)
            except SyntaxError:
                continue
            self.modules[mod] = tree
            self.module_src[mod] = src
            consts = {}
            for node in tree.body:
                if isinstance(node, ast.FunctionDef):
                    fi = FunctionInfo(mod, None, node, path)
                    self.functions[fi.qualname] = fi
                elif isinstance(node, ast.ClassDef):
                    ci = ClassInfo(mod, node)
                    # first definition wins for the global class-name table unless it's the canonical module
                    if ci.name not in self.classes:
                        self.classes[ci.name] = ci
                    for sub in node.body:
                        if isinstance(sub, ast.FunctionDef):
                            fi = FunctionInfo(mod, ci.name, sub, path)
                            if fi.is_setter:
                                ci.setters[sub.name] = fi
                                self.functions[fi.qualname + '.setter'] = fi
                            else:
                                ci.methods[sub.name] = fi
                                self.functions[fi.qualname] = fi
                        elif isinstance(sub, ast.Assign) and len(sub.targets) == 1 and \
                                isinstance(sub.targets[0], ast.Name):
                            ci.class_attrs[sub.targets[0].id] = sub.value
                        elif isinstance(sub, ast.AnnAssign) and isinstance(sub.target, ast.Name) \
                                and sub.value is not None:
                            ci.class_attrs[sub.target.id] = sub.value
                elif isinstance(node, ast.Assign) and len(node.targets) == 1 and isinstance(node.targets[0], ast.Name):
                    consts[node.targets[0].id] = node.value
                elif isinstance(node, ast.AnnAssign) and isinstance(node.target, ast.Name) and node.value is not None:
                    consts[node.target.id] = node.value
            self.module_consts[mod] = consts
        self.class_ids = {name: i + 1 for i, name in enumerate(sorted(self.classes))}

    # ---- hierarchy -------------------------------------------------------------------------------------------
    def mro(self, cls: str) -> List[str]:
        if cls in self._mro_cache:
            return self._mro_cache[cls]
        if cls not in self.classes:
            return [cls]
        bases = [b for b in self.classes[cls].bases if b in self.classes]
        seqs = [list(self.mro(b)) for b in bases] + [list(bases)]
        res = [cls]
        while True:
            seqs = [s for s in seqs if s]
            if not seqs:
                break
            for s in seqs:
                cand = s[0]
                if not any(cand in t[1:] for t in seqs):
                    break
            else:
                raise ValueError(f"inconsistent MRO for {cls}")
            res.append(cand)
            for s in seqs:
                if s and s[0] == cand:
                    del s[0]
        self._mro_cache[cls] = res
        return res

    def is_subclass(self, sub: str, sup: str) -> bool:
        return sup in self.mro(sub)

    def subclasses(self, cls: str) -> List[str]:
        return [c for c in self.classes if self.is_subclass(c, cls)]

    def lookup_method(self, cls: str, name: str, after: Optional[str] = None) -> Optional[FunctionInfo]:
        """Resolve `name` along the MRO of cls; if `after` is given start after that class (super())."""
        mro = self.mro(cls)
        if after is not None:
            if after in mro:
                mro = mro[mro.index(after) + 1:]
            else:
                return None
        for c in mro:
            ci = self.classes.get(c)
            if ci and name in ci.methods:
                return ci.methods[name]
        return None

    def lookup_setter(self, cls: str, name: str) -> Optional[FunctionInfo]:
        for c in self.mro(cls):
            ci = self.classes.get(c)
            if ci and name in ci.setters:
                return ci.setters[name]
        return None

    def lookup_class_attr(self, cls: str, name: str) -> Optional[ast.expr]:
        for c in self.mro(cls):
            ci = self.classes.get(c)
            if ci and name in ci.class_attrs:
                return ci.class_attrs[name]
        return None

    def function(self, qualname: str) -> Optional[FunctionInfo]:
        return self.functions.get(qualname)

    def nested_function(self, qualname: str) -> Optional[FunctionInfo]:
        """'module.outer.inner' for a def nested in a module-level function (e.g. repeat_until_tightened.wrapper)."""
        parts = qualname.split('.')
        for k in range(len(parts) - 1, 0, -1):
            outer = self.functions.get('.'.join(parts[:k]))
            if outer is None:
                continue
            node = outer.node
            ok = True
            for name in parts[k:]:
                nxt = None
                for n in ast.walk(node):
                    if isinstance(n, ast.FunctionDef) and n.name == name and n is not node:
                        nxt = n
                        break
                if nxt is None:
                    ok = False
                    break
                node = nxt
            if ok:
                fi = FunctionInfo(outer.module, outer.cls, node, outer.path)
                fi.qualname = qualname
                return fi
        return None
