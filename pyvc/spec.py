"""Sidecar contract registry.  Contracts are plain data; expressions are Python-syntax strings evaluated by the
symbolic executor in spec mode (pure, non-forking; extras: old(e), result, forall(i,lo,hi,p), exists(i,lo,hi,p),
implies(a,b), ite(c,a,b), eqv(a,b), typeis(x,'C'), isold(x), isnew(x), plus declared uninterpreted functions)."""
from typing import Dict, List, Optional


class LoopSpec:
    def __init__(self, invariant=(), variant=None, index=None, types=None, modifies=(), unroll=None, ghost_pre=()):
        self.invariant: List[str] = list(invariant)
        self.variant: Optional[str] = variant
        self.index: Optional[str] = index          # ghost name of the hidden iteration counter of a for loop
        self.types: Dict[str, str] = dict(types or {})
        self.modifies: List[str] = list(modifies)
        self.unroll: Optional[int] = unroll
        self.ghost_pre: List[str] = list(ghost_pre)     # ghost statements executed at the start of each iteration


class Contract:
    def __init__(self, key, params=None, returns=None, requires=(), ensures=(), modifies=(), raises=None,
                 may_raise=(), loops=None, allocates=False, virtual=False, trusted=None, locals=None,
                 ensures_raise=None, note=None, self_cls=None, yields=None, pure=False, ghost_init=(), ghost_after=None,
                 ghost_before=None, internal_ensures=(), assumed_ensures=(), slice_names=None, dropped_locals=()):
        self.key = key                      # 'module.func' or 'Class.method'
        self.params: Dict[str, str] = dict(params or {})
        self.returns: Optional[str] = returns
        self.yields: Optional[str] = yields  # element type of a generator's output
        self.requires: List[str] = list(requires)
        self.ensures: List[str] = list(ensures)
        self.modifies: List[str] = list(modifies)       # 'field' or 'field@expr'
        self.raises: Dict[str, Optional[str]] = dict(raises or {})   # allowed exception class -> condition (or None)
        self.may_raise: List[str] = list(may_raise)     # assumed (external) exceptions: nondeterministic
        self.loops: Dict[int, LoopSpec] = dict(loops or {})
        self.allocates = allocates
        self.virtual = virtual              # interface contract: assumed at dynamic dispatch sites
        self.trusted: Optional[str] = trusted   # reason if this contract is assumed, never proved
        self.locals: Dict[str, str] = dict(locals or {})
        self.ensures_raise: Dict[str, List[str]] = dict(ensures_raise or {})
        self.note = note
        self.self_cls = self_cls
        self.pure = pure
        self.ghost_init: List[str] = list(ghost_init)              # ghost statements at function entry
        self.ghost_after: Dict[str, List[str]] = dict(ghost_after or {})    # statement text -> ghost statements
        self.ghost_before: Dict[str, List[str]] = dict(ghost_before or {})
        self.internal_ensures: List[str] = list(internal_ensures)  # checked for the body only (may use ghost locals)
        self.assumed_ensures: List[str] = list(assumed_ensures)    # coupling facts assumed at call sites only (trusted)
        # def-use slice: verify only the top-level statements of the body that assign one of these names
        self.slice_names = list(slice_names) if slice_names else None
        self.dropped_locals = list(dropped_locals)      # progress bookkeeping variables dropped by extraction


class Registry:
    def __init__(self):
        self.contracts: Dict[str, Contract] = {}
        self.field_types: Dict[str, str] = {}
        self.ufs: Dict[str, tuple] = {}         # name -> (argsorts..., ressort) strings 'int'/'bool'
        self.macros: Dict[str, tuple] = {}      # name -> (params, expr)
        self.axioms: List[str] = []             # closed spec expressions assumed globally
        self.opaque_names: set = set()          # module-level names dropped by extraction (log, DEFAULT_PRINTER)
        self.inline_deny: set = set()
        self.targets: List[str] = []            # qualnames to verify
        self.side_checks = []                   # callables(repo) -> list of error strings (mechanical premises)
        self.getattr_templates: Dict[str, str] = {}

    def contract(self, key, **kw) -> Contract:
        c = Contract(key, **kw)
        self.contracts[key] = c
        return c

    def fields(self, **kw):
        self.field_types.update(kw)

    def uf(self, name, *sorts):
        self.ufs[name] = tuple(sorts)

    def macro(self, name, params, expr):
        self.macros[name] = (tuple(params), expr)

    def axiom(self, expr):
        self.axioms.append(expr)

    def get(self, key) -> Optional[Contract]:
        return self.contracts.get(key)

    def merged(self, other: 'Registry') -> 'Registry':
        r = Registry()
        for src in (self, other):
            r.contracts.update(src.contracts)
            r.field_types.update(src.field_types)
            r.ufs.update(src.ufs)
            r.macros.update(src.macros)
            r.axioms.extend(a for a in src.axioms if a not in r.axioms)
            r.opaque_names |= src.opaque_names
            r.inline_deny |= src.inline_deny
            r.side_checks.extend(c for c in src.side_checks if c not in r.side_checks)
            r.getattr_templates.update(src.getattr_templates)
        return r
