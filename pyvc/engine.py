"""pyvc symbolic executor: generates verification conditions from the AST of the real functions.

Exploration is replay-based DFS: every path re-executes the function from the start following a recorded decision
prefix; symbolic branches record both outcomes.  Loops are cut at sidecar invariants; calls use callee contracts
(or inline the callee's real body when no contract exists)."""
import ast
import time
import z3

from .values import *
from .values import _arr_sort
from .source import Repo, FunctionInfo, _walk_no_nested
from .spec import Registry, Contract, LoopSpec


_qcache = {}


def _quantified(e):
    k = e.get_id()
    if k in _qcache:
        return _qcache[k]
    seen = set()
    stack = [e]
    res = False
    while stack:
        x = stack.pop()
        if z3.is_quantifier(x):
            res = True
            break
        i = x.get_id()
        if i in seen:
            continue
        seen.add(i)
        stack.extend(x.children())
    _qcache[k] = res
    return res


def split_goal(g, depth=0):
    """Split a goal into independently provable pieces: conjunctions, implications with conjunctive consequents and
    universally quantified conjunctions."""
    if depth > 6:
        return [g]
    if z3.is_and(g):
        out = []
        for ch in g.children():
            out.extend(split_goal(ch, depth + 1))
        return out
    if z3.is_implies(g):
        a, b = g.children()
        parts = split_goal(b, depth + 1)
        if len(parts) > 1:
            return [z3.Implies(a, p) for p in parts]
        return [g]
    if z3.is_quantifier(g) and g.is_forall():
        nv = g.num_vars()
        body = g.body()
        parts = split_goal(body, depth + 1)
        if len(parts) > 1:
            names = [g.var_name(i) for i in range(nv)]
            sorts = [g.var_sort(i) for i in range(nv)]
            consts = [z3.Const(f"{n}!s", srt) for n, srt in zip(names, sorts)]
            # de Bruijn: variable 0 is the innermost (last) bound variable
            out = []
            for p in parts:
                inst = z3.substitute_vars(p, *reversed(consts))
                out.append(z3.ForAll(consts, inst))
            return out
        return [g]
    return [g]


class PathEnd(Exception):
    pass


class ReturnSig(Exception):
    def __init__(self, value):
        self.value = value


class BreakSig(Exception):
    pass


class ContinueSig(Exception):
    pass


class RaiseSig(Exception):
    def __init__(self, cls, value=None, node=None):
        self.cls = cls
        self.value = value
        self.node = node


class Obligation:
    def __init__(self, name, kind, pc, goal, line, info=''):
        self.name = name
        self.kind = kind
        self.pc = list(pc)
        self.goal = goal
        self.line = line
        self.info = info
        self.verdict = None
        self.ms = 0.0
        self.backend = None
        self.model = None


class Frame:
    def __init__(self, fi, cls, vars, spec=False, parent=None):
        self.fi = fi
        self.cls = cls                  # defining class (for super() and name mangling)
        self.vars = vars
        self.spec = spec
        self.parent = parent            # lexically enclosing frame (closures)
        self.entry_vars = None
        self.old_heap = None
        self.out = None                 # generator output sequence
        self.contract = None
        self.depth = 0
        self.noforks = False
        self.module = fi.module if fi is not None else None


BUILTIN_EXC = {
    'Exception': ['BaseException'], 'ValueError': ['Exception'], 'TypeError': ['Exception'],
    'KeyError': ['LookupError'], 'IndexError': ['LookupError'], 'LookupError': ['Exception'],
    'RuntimeError': ['Exception'], 'NotImplementedError': ['RuntimeError'], 'AssertionError': ['Exception'],
    'StopIteration': ['Exception'], 'AttributeError': ['Exception'], 'OSError': ['Exception'],
    'UnicodeDecodeError': ['ValueError'], 'UnicodeError': ['ValueError'], 'KeyboardInterrupt': ['BaseException'],
    'BaseException': [], 'ArithmeticError': ['Exception'], 'ZeroDivisionError': ['ArithmeticError'],
    'OverflowError': ['ArithmeticError'], 'RecursionError': ['RuntimeError'], 'EOFError': ['Exception'],
    'SyntaxError': ['Exception'], 'MemoryError': ['Exception'],
    # third-party exception lattices the loaders mention (documented bases)
    'JSONDecodeError': ['ValueError'], 'YAMLError': ['Exception'], 'ExpatError': ['Exception'],
    'ParseError': ['SyntaxError'], 'InvalidFileException': ['ValueError'], 'ScannerError': ['MarkedYAMLError'],
    'ParserError': ['MarkedYAMLError'], 'ReaderError': ['YAMLError'], 'MarkedYAMLError': ['YAMLError'],
    'ComposerError': ['MarkedYAMLError'], 'ConstructorError': ['MarkedYAMLError'], 'UnpicklingError': ['Exception'], 'PickleError': ['Exception'],
    'Error': ['Exception'],
}


def exc_is_subclass(sub, sup, repo=None):
    if sub == sup:
        return True
    if repo is not None and sub in repo.classes:
        return repo.is_subclass(sub, sup) or any(
            exc_is_subclass(b, sup, repo) for b in repo.classes[sub].bases if b not in repo.classes)
    for b in BUILTIN_EXC.get(sub, ['Exception'] if sub not in ('BaseException',) else []):
        if exc_is_subclass(b, sup, repo):
            return True
    return False


class Executor:
    MAX_PATHS = 4000
    MAX_DEPTH = 14

    def __init__(self, repo: Repo, reg: Registry, budget_ms=10000):
        self.repo = repo
        self.reg = reg
        self.budget_ms = budget_ms
        self._spec_cache = {}
        self._ord_cache = {}
        self._ufs = {}
        self.feas_solver_ms = 300
        self.stats = {'paths': 0, 'feas_checks': 0}

    # ------------------------------------------------------------------------------------------- path state
    def reset_path(self, prefix):
        self.pc = []
        self.pc_ids = set()
        self.heap = {}
        self.alloc = z3.Int('alloc0')
        self.alloc0 = self.alloc
        self.decisions = list(prefix)
        self.pos = 0
        self.counter = {}
        self.field_oids = {}
        self.heap_init = {}
        self.in_quant = 0
        self.exact_cls = {}
        self.typed_reads = set()
        self._sumdefs = {}
        self.cur_line = 0
        self.pc.append(self.alloc0 > 0)

    def fresh_name(self, base):
        k = self.counter.get(base, 0)
        self.counter[base] = k + 1
        return f"{base}!{k}"

    def fresh_int(self, base='t'):
        return z3.Int(self.fresh_name(base))

    def fresh_bool(self, base='b'):
        return z3.Bool(self.fresh_name(base))

    def assume(self, z):
        if isinstance(z, bool):
            if not z:
                raise PathEnd()
            return
        z = z3.simplify(z)
        if z3.is_false(z):
            raise PathEnd()
        if z3.is_and(z):
            for ch in z.children():
                self.assume(ch)
            return
        if not z3.is_true(z):
            k = z.get_id()
            if k not in self.pc_ids:
                self.pc_ids.add(k)
                self.pc.append(z)

    def feasible(self, extra):
        self.stats['feas_checks'] += 1
        s = z3.Solver()
        s.set('timeout', self.feas_solver_ms)
        for p in self.pc:
            if not _quantified(p):     # pruning only: dropping hypotheses can only keep more paths
                s.add(p)
        s.add(extra)
        return s.check() != z3.unsat

    def branch(self, cond, fr=None) -> bool:
        """Decide a symbolic condition on this path; records the alternative for later exploration."""
        if isinstance(cond, bool):
            return cond
        cond = z3.simplify(cond)
        if z3.is_true(cond):
            return True
        if z3.is_false(cond):
            return False
        if fr is not None and fr.noforks:
            raise Unsupported("symbolic branch inside a quantified (non-forking) context")
        if self.pos < len(self.decisions):
            d = self.decisions[self.pos]
        else:
            ft = self.feasible(cond)
            ff = self.feasible(z3.Not(cond))
            if ft and ff:
                d = True
                self.pending.append(self.decisions[:self.pos] + [False])
            elif ft:
                d = True
            elif ff:
                d = False
            else:
                raise PathEnd()
            self.decisions.append(d)
        self.pos += 1
        self.pc.append(cond if d else z3.Not(cond))
        return d

    def choose(self, n: int) -> int:
        """Non-deterministic choice among n alternatives (used for assumed may-raise sets)."""
        for k in range(n - 1):
            b = self.fresh_bool('choice')
            if self.branch(b):
                return k
        return n - 1

    # ------------------------------------------------------------------------------------------- obligations
    def ordinal(self, fi: FunctionInfo, node, kind):
        key = fi.qualname
        if key not in self._ord_cache:
            table = {}
            counts = {}
            for n in ast.walk(fi.node):
                pass
            # deterministic pre-order numbering per category

            def visit(n):
                cat = None
                if isinstance(n, ast.Call):
                    cat = 'call'
                elif isinstance(n, ast.Subscript):
                    cat = 'sub'
                elif isinstance(n, ast.Assert):
                    cat = 'assert'
                elif isinstance(n, (ast.For, ast.While)):
                    cat = 'loop'
                elif isinstance(n, ast.Return):
                    cat = 'return'
                elif isinstance(n, ast.Raise):
                    cat = 'raise'
                elif isinstance(n, ast.Attribute):
                    cat = 'attr'
                elif isinstance(n, (ast.BinOp, ast.Compare)):
                    cat = 'op'
                elif isinstance(n, ast.JoinedStr):
                    cat = 'fstr'
                if cat:
                    table[id(n)] = counts.get(cat, 0)
                    counts[cat] = counts.get(cat, 0) + 1
                for c in ast.iter_child_nodes(n):
                    visit(c)
            visit(fi.node)
            self._ord_cache[key] = table
        return self._ord_cache[key].get(id(node), 0)

    def oblige(self, kind, goal, fr, node=None, tag=None, info=''):
        if isinstance(goal, bool):
            goal = z3.BoolVal(goal)
        goal = z3.simplify(goal)
        if z3.is_true(goal):
            self.trivial += 1
            self._touch(kind, fr, node, tag)
            return
        name = self._oname(kind, fr, node, tag)
        for piece in split_goal(goal):
            self.obligations.append(Obligation(name, kind, self.pc, piece, getattr(node, 'lineno', self.cur_line), info))

    def _oname(self, kind, fr, node, tag):
        fi = fr.fi if fr is not None and fr.fi is not None else self.target
        owner = fi.qualname
        if tag is None:
            tag = str(self.ordinal(fi, node, None)) if node is not None else '0'
        base = self.target.qualname
        if owner != base:
            return f"{base}#{kind}[{owner}:{tag}]"
        return f"{base}#{kind}[{tag}]"

    def _touch(self, kind, fr, node, tag):
        self.touched.add(self._oname(kind, fr, node, tag))

    # ------------------------------------------------------------------------------------------- heap
    def field_type(self, fname, cls=None) -> Ty:
        if cls is not None:
            for c in self.repo.mro(cls):
                k = f"{c}.{fname}"
                if k in self.reg.field_types:
                    return parse_type(self.reg.field_types[k])
        if fname in self.reg.field_types:
            return parse_type(self.reg.field_types[fname])
        raise Unsupported(f"no declared type for heap field {fname!r} (class {cls})")

    def heap_tree(self, fname, cls=None, like=None):
        if fname not in self.heap:
            try:
                ty = self.field_type(fname, cls)
            except Unsupported:
                if like is None:
                    raise
                ty = type_of(like)
                if ty.kind == 'none':
                    raise Unsupported(f"field {fname!r} first assigned None without a declared type")
            self.heap[fname] = fresh(ty, f"H.{fname}", 1)
            self.heap_init[fname] = self.heap[fname]
        return self.heap[fname]

    def heap_get(self, ref: VRef, fname) -> V:
        tree = self.heap_tree(fname, ref.cls)
        v = sel(tree, ref.z)
        if self.in_quant:
            return v        # a bound variable may be in scope: record no facts about this read
        self._ref_facts(v)
        if isinstance(v, VSeq):
            # well-typed heap: declared element types of sequence fields hold for every stored sequence
            key = (fname, v.n.get_id() if hasattr(v.n, 'get_id') else None)
            if key[1] is None or key not in self.typed_reads:
                # (the same stored sequence read again - same z3 terms - needs no second copy of the quantified facts)
                self.typed_reads.add(key)
                try:
                    self.assume_type(v, self.field_type(fname, ref.cls))
                except Unsupported:
                    pass
        return v

    def _ref_facts(self, v):
        # well-formed heap: any reference read from the heap is null or allocated
        if isinstance(v, VRef) and not self.in_quant:
            self.assume(z3.And(v.z >= 0, v.z < self.alloc))

    def heap_set(self, ref: VRef, fname, v: V):
        if isinstance(v, VView):
            v = self.materialize(v)
        tree = self.heap_tree(fname, ref.cls, like=v)
        if isinstance(v, VSeq) and isinstance(tree, VSeq) and not self._same_shape(sel(tree, z3.IntVal(0)), v):
            # convert to the declared field type (e.g. a matrix of None literals into list[list[optref[..]]])
            conv = fresh(type_of(sel(tree, z3.IntVal(0))), self.fresh_name('conv'))
            conv.skind = v.skind
            self.assume_forall_eq([], z3.BoolVal(True), conv, v)
            v = conv
        self.heap[fname] = sto(tree, ref.z, v)
        if isinstance(v, VSeq):
            self.field_oids[v.oid] = self.field_oids.get(v.oid, 0) + 1

    def _same_shape(self, a, b):
        if type(a) is not type(b):
            return False
        if isinstance(a, VSeq):
            return self._same_shape(a.elem, b.elem)
        if isinstance(a, VTuple):
            return len(a.items) == len(b.items) and all(self._same_shape(x, y) for x, y in zip(a.items, b.items))
        return True

    def cls_of(self, refz):
        if '__cls__' not in self.heap:
            self.heap['__cls__'] = VInt(z3.Const('H.__cls__', _arr_sort(I, 1)))
        return z3.Select(self.heap['__cls__'].z, refz)

    def set_cls(self, refz, cls):
        self.cls_of(refz)
        self.heap['__cls__'] = VInt(z3.Store(self.heap['__cls__'].z, refz, self.repo.class_ids[cls]))

    def isinstance_z(self, v: V, cls: str):
        """z3 Bool for isinstance(v, cls)."""
        if isinstance(v, VRef):
            subs = self.repo.subclasses(cls) if cls in self.repo.classes else []
            if not subs:
                return z3.BoolVal(False)
            if v.exact and v.cls is not None:
                return z3.BoolVal(self.repo.is_subclass(v.cls, cls))
            c = self.cls_of(v.z)
            return z3.And(v.z != 0, z3.Or([c == self.repo.class_ids[s] for s in subs]))
        if isinstance(v, VInt):
            if getattr(v, 'char', False) or getattr(v, 'strid', False):
                return z3.BoolVal(cls == 'str')
            return z3.BoolVal(cls == 'int')
        if isinstance(v, VBool):
            return z3.BoolVal(cls in ('bool', 'int'))
        if isinstance(v, VRec):
            return z3.BoolVal(cls == v.cls)
        if isinstance(v, (VSeq, VView)):
            m = {'list': ('list',), 'tuple': ('tuple',), 'str': ('str',), 'set': ('set',)}
            return z3.BoolVal(cls in m.get(v.skind, ()))
        if isinstance(v, VTuple):
            return z3.BoolVal(cls == 'tuple')
        if isinstance(v, VNone):
            return z3.BoolVal(False)
        if isinstance(v, VOptInt):
            return z3.And(z3.Not(v.isnone), z3.BoolVal(cls == 'int'))
        if isinstance(v, VOpaque):
            if v.tag == 'const':
                return z3.BoolVal(type(v.py).__name__ == cls or (cls == 'int' and isinstance(v.py, bool)))
            if v.tag == 'exc':
                return z3.BoolVal(exc_is_subclass(v.py, cls, self.repo))
        raise Unsupported(f"isinstance({v!r}, {cls})")

    def type_facts(self, v: V, ty: Ty, depth=0):
        """Type invariants of a value of declared type ty, as a list of z3 facts (nested sequences quantified)."""
        facts = []
        if isinstance(v, VRef):
            facts += [v.z >= 0, v.z < self.alloc]
            if not getattr(ty, 'nullable', True):
                facts.append(v.z != 0)
            if getattr(ty, 'cls', None) in self.repo.classes:
                facts.append(z3.Or(v.z == 0, self.isinstance_z(VRef(v.z, None), ty.cls)))
        elif isinstance(v, VSeq):
            facts.append(v.n >= (-1 if getattr(ty, 'nullable', False) else 0))
            k = z3.Int(f'k!tf{depth}')      # canonical bound variable: identical facts are identical terms (deduplicated)
            inner = self.type_facts(sel(v.elem, k), ty.elem, depth + 1)
            if inner:
                facts.append(z3.ForAll([k], z3.Implies(z3.And(k >= 0, k < v.n), z3.And(inner))))
        elif isinstance(v, VTuple) and ty.kind == 'tuple':
            for it, ity in zip(v.items, ty.items):
                facts += self.type_facts(it, ity, depth)
        return facts

    def assume_type(self, v: V, ty: Ty):
        """Type invariants of a declared parameter / result / heap-read value."""
        for f in self.type_facts(v, ty):
            self.assume(f)

    def materialize(self, v) -> VSeq:
        if isinstance(v, VSeq):
            return v
        if isinstance(v, VTuple):
            if not v.items:
                raise Unsupported("materialize empty tuple of unknown element type")
            ety = type_of(v.items[0])
            s = VSeq(z3.IntVal(0), fresh(ety, self.fresh_name('mat'), 1), 'tuple')
            for it in v.items:
                s = seq_append(s, it)
            return s
        if not isinstance(v, VView):
            raise Unsupported(f"materialize {v!r}")
        ety = type_of(v)
        s = fresh(ety, self.fresh_name('mat'))
        s.skind = v.skind
        self.assume(s.n == v.n)
        self.assume(v.n >= 0)
        k = self.fresh_int('k')
        self.assume_forall_eq([k], z3.And(k >= 0, k < s.n), sel(s.elem, k), v.getter(k))
        return s

    def assume_forall_eq(self, binders, guard, a: V, b: V):
        """Assume forall binders. guard => a == b (structural)."""
        if isinstance(a, (VInt, VBool, VRef)) or isinstance(b, (VInt, VBool, VRef)):
            b = coerce(b, a)
            self.assume(z3.ForAll(binders, z3.Implies(guard, a.z == b.z)) if binders else z3.Implies(guard, a.z == b.z))
        elif isinstance(a, VOptInt):
            b = coerce(b, a)
            body = z3.And(a.isnone == b.isnone, z3.Implies(z3.Not(a.isnone), a.z == b.z))
            self.assume(z3.ForAll(binders, z3.Implies(guard, body)) if binders else z3.Implies(guard, body))
        elif isinstance(a, VTuple):
            for x, y in zip(a.items, b.items):
                self.assume_forall_eq(binders, guard, x, y)
        elif isinstance(a, VRec):
            for f in a.fields:
                self.assume_forall_eq(binders, guard, a.fields[f], b.fields[f])
        elif isinstance(a, (VSeq, VView)):
            ln = z3.Implies(guard, a.n == b.n)
            self.assume(z3.ForAll(binders, ln) if binders else ln)
            j = self.fresh_int('j')
            self.assume_forall_eq(binders + [j], z3.And(guard, j >= 0, j < a.n), seq_get(a, j), seq_get(b, j))
        elif isinstance(a, (VNone, VOpaque)):
            pass
        else:
            raise Unsupported(f"assume_forall_eq {a!r}")

    def veq(self, a: V, b: V, node_eq=False):
        """z3 Bool for a == b.  node_eq: references compare by abstract node value (TreeNode.__eq__)."""
        if isinstance(a, VNone) and isinstance(b, VNone):
            return z3.BoolVal(True)
        if isinstance(a, VNone):
            a, b = b, a
        if isinstance(b, VNone):
            if isinstance(a, VRef):
                return a.z == 0
            if isinstance(a, VOptInt):
                return a.isnone
            if isinstance(a, VSeq) and a.nullable:
                return a.n == -1
            return z3.BoolVal(False)
        if isinstance(a, VBool) and isinstance(b, VInt):
            a = VInt(z3.If(a.z, 1, 0))
        if isinstance(b, VBool) and isinstance(a, VInt):
            b = VInt(z3.If(b.z, 1, 0))
        for x, y in ((a, b), (b, a)):
            if getattr(x, 'strid', False) and isinstance(y, VOpaque) and y.tag == 'const' and isinstance(y.py, str):
                if isinstance(x, VOptInt):
                    return z3.And(z3.Not(x.isnone), x.z == self.intern(y.py))
                return x.z == self.intern(y.py)
        if isinstance(a, VOptInt) or isinstance(b, VOptInt):
            a = coerce(a, VOptInt(True, 0))
            b = coerce(b, VOptInt(True, 0))
            return z3.And(a.isnone == b.isnone, z3.Or(a.isnone, a.z == b.z))
        if isinstance(a, (VInt, VBool)) and type(a) is type(b):
            return a.z == b.z
        if (isinstance(a, VRef) and isinstance(b, VInt)) or (isinstance(a, VInt) and isinstance(b, VRef)):
            return a.z == b.z       # specifications may relate object ids to uninterpreted functions over ids
        if isinstance(a, VRef) and isinstance(b, VRef):
            if node_eq:
                return z3.Or(a.z == b.z, z3.And(a.z != 0, b.z != 0, self.uf('nodeval', 'int', 'int')(a.z) ==
                                                self.uf('nodeval', 'int', 'int')(b.z)))
            return a.z == b.z
        if isinstance(a, VTuple) and isinstance(b, VTuple):
            if len(a.items) != len(b.items):
                return z3.BoolVal(False)
            return z3.And([self.veq(x, y, node_eq) for x, y in zip(a.items, b.items)] + [z3.BoolVal(True)])
        if isinstance(a, VRec) and isinstance(b, VRec):
            return z3.And([self.veq(a.fields[f], b.fields[f], node_eq) for f in a.fields])
        if isinstance(a, (VSeq, VView, VTuple)) and isinstance(b, (VSeq, VView, VTuple)):
            if isinstance(a, VTuple):
                a = self.materialize(a)
            if isinstance(b, VTuple):
                b = self.materialize(b)
            if {a.skind, b.skind} == {'list', 'tuple'}:
                return z3.BoolVal(False)
            k = self.fresh_int('q')
            return z3.And(a.n == b.n, z3.ForAll([k], z3.Implies(z3.And(k >= 0, k < a.n),
                                                               self.veq(seq_get(a, k), seq_get(b, k), node_eq))))
        if isinstance(a, VOpaque) and isinstance(b, VOpaque) and a.tag == 'const' and b.tag == 'const':
            return z3.BoolVal(a.py == b.py)
        if isinstance(a, VOpaque) and isinstance(b, VOpaque) and a.tag == b.tag and a.tag in ('type', 'exc'):
            if a.py is None or b.py is None:
                return self.fresh_bool("eq")       # an unknown type / exception class: unspecified
            return z3.BoolVal(a.py == b.py)
        kinds = (type(a).__name__, type(b).__name__)
        if isinstance(a, (VInt, VBool, VRef, VTuple, VRec, VSeq)) and isinstance(b, (VInt, VBool, VRef, VTuple, VRec, VSeq)):
            return z3.BoolVal(False)    # different kinds never compare equal
        raise Unsupported(f"equality between {kinds}")

    def intern(self, text):
        """String constants compared against symbolic string ids (type strid): distinct literals get distinct ids."""
        tab = self.__dict__.setdefault('_intern', {})
        if text not in tab:
            tab[text] = (ord(text) if len(text) == 1 else 10000000 + len(tab))   # one-character strings are their code point
        return z3.IntVal(tab[text])

    def uf(self, name, *sorts):
        if name not in self._ufs:
            m = {'int': I, 'bool': B}
            self._ufs[name] = z3.Function(name, *[m[s] for s in sorts])
        return self._ufs[name]

    def new_object(self, cls) -> VRef:
        r = self.alloc
        self.alloc = r + 1
        self.alloc = z3.simplify(self.alloc)
        if cls in self.repo.class_ids:
            self.set_cls(r, cls)
        obj = VRef(r, cls, exact=True, nullable=False)
        # class-level defaults (e.g. TreeNode._parent = None) are the initial values of the instance attributes
        if cls in self.repo.classes:
            seen = set()
            for c in self.repo.mro(cls):
                ci = self.repo.classes.get(c)
                if ci is None:
                    continue
                for attr, expr in ci.class_attrs.items():
                    if attr in seen:
                        continue
                    seen.add(attr)
                    if not isinstance(expr, ast.Constant) or not (expr.value is None or isinstance(expr.value, (bool, int))):
                        continue
                    try:
                        ty = self.field_type(attr, cls)
                    except Unsupported:
                        continue
                    v = VNone() if expr.value is None else (VBool(expr.value) if isinstance(expr.value, bool) else VInt(expr.value))
                    try:
                        tree = self.heap_tree(attr, cls)
                        self.heap[attr] = sto(tree, r, v)
                    except Unsupported:
                        pass
        return obj
