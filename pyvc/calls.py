"""Calls: builtins, inlining of real callee bodies, contract application, constructors, spec functions."""
import ast
import z3

from .values import *
from .engine import PathEnd, ReturnSig, BreakSig, ContinueSig, RaiseSig, Frame, exc_is_subclass
from .source import FunctionInfo
from .spec import Contract


class CallMixin:
    BUILTINS = {'len', 'range', 'zip', 'enumerate', 'reversed', 'min', 'max', 'abs', 'sum', 'all', 'any',
                'isinstance', 'iter', 'id', 'super', 'print', 'repr', 'hash', 'cast', 'getattr', 'hasattr', 'sorted',
                'exit', 'map', 'frozenset', 'next', 'issubclass', 'setattr', 'delattr', 'callable', 'ghost_list', 'open',
                'assume', 'check'}
    SPEC_FUNCS = {'old', 'forall', 'exists', 'forall_ref', 'implies', 'ite', 'eqv', 'typeis', 'isold', 'isnew', 'len', 'min', 'max',
                  'abs', 'isinstance', 'isnone', 'notnone', 'seqeq', 'iff', 'subtype', 'sizeof', 'sumof'}

    # ------------------------------------------------------------------------------------------- entry
    def ev_Call(self, node, fr):
        if fr.spec:
            return self.spec_call(node, fr)
        if self.is_dropped_call(node, fr):
            return VOpaque(None, 'dropped')
        # super().m(...)
        f = node.func
        fn = self.ev(f, fr)
        args, kwargs = self.eval_args(node, fr)
        return self.call(fn, args, kwargs, fr, node)

    def eval_args(self, node, fr):
        args = []
        for a in node.args:
            if isinstance(a, ast.Starred):
                v = self.ev(a.value, fr)
                if isinstance(v, VTuple):
                    args.extend(v.items)
                elif isinstance(v, VOpaque) and v.tag == 'emptylist':
                    pass
                else:
                    raise Unsupported("star-args of symbolic length")
            else:
                args.append(self.ev(a, fr))
        kwargs = {}
        for k in node.keywords:
            if k.arg is None:
                v = self.ev(k.value, fr)
                if isinstance(v, VOpaque) and v.tag == 'kwargs':
                    kwargs.update(v.py)
                elif isinstance(v, VOpaque) and v.tag == 'emptydict':
                    pass
                else:
                    raise Unsupported("**kwargs of unknown shape")
            else:
                kwargs[k.arg] = self.ev(k.value, fr)
        return args, kwargs

    def call(self, fn, args, kwargs, fr, node):
        if not isinstance(fn, (VCallable, VOpaque)):
            if isinstance(fn, (VRef, VRec)):
                return self.call_method(fn, '__call__', args, kwargs, fr, node)
            raise Unsupported(f"call of {fn!r}")
        if isinstance(fn, VOpaque):
            if fn.tag in ('dropped',):
                return VOpaque(None, 'dropped')
            if fn.tag == 'exc':
                return VOpaque(fn.py, 'excobj')
            if fn.tag == 'constmethod':
                return self.const_method(fn, args, fr, node)
            if fn.tag == 'kwargsmethod':
                if fn.py[1] == 'items':
                    return VTuple([VTuple([VOpaque(k, 'const'), v]) for k, v in fn.py[0].items()])
                raise Unsupported(f"kwargs.{fn.py[1]}")
            if fn.tag == 'opaque' and fn.py == 'np.dtype' and len(args) == 1:
                a0 = args[0]
                nm = a0.py if isinstance(a0, VOpaque) else (a0.name if isinstance(a0, VCallable) and a0.kind == 'builtin' else None)
                if isinstance(nm, str):
                    return VOpaque(f"dtype:{nm}", 'const')     # numpy dtype objects are identified by their constructor argument
            if fn.tag == 'opaque':
                key = '.'.join(map(str, fn.py)) if isinstance(fn.py, tuple) else str(fn.py)
                c = self.reg.get(key)
                if c is not None:
                    return self.apply_contract(c, None, self.bind_contract(c, args, kwargs), fr, node)
                raise Unsupported(f"call of opaque external {key} without an assumed contract")
            raise Unsupported(f"call of opaque {fn!r}")
        k = fn.kind
        if k == 'builtin':
            return self.builtin(fn.name, args, kwargs, fr, node)
        if k == 'external':
            c = self.reg.get(fn.key)
            return self.apply_contract(c, None, self.bind_contract(c, args, kwargs), fr, node)
        if k == 'class':
            return self.construct(fn.cls, args, kwargs, fr, node)
        if k == 'func':
            if getattr(fn, 'clsarg', None) is not None:
                args = [VCallable('class', cls=fn.clsarg)] + args
            return self.call_function(fn.fi, args, kwargs, fr, node, closure=fn.closure)
        if k == 'bound':
            return self.call_method(fn.selfv, fn.name, args, kwargs, fr, node)
        if k == 'superbound':
            fi = self.repo.lookup_method(fn.dyn_cls, fn.name, after=fn.after)
            if fi is None:
                if fn.name == '__init__':
                    return VNone()      # object.__init__
                raise Unsupported(f"super().{fn.name} not found after {fn.after}")
            return self.call_function(fi, [fn.selfv] + args, kwargs, fr, node, selfv=fn.selfv)
        if k == 'lambda':
            return self.call_lambda(fn, args, kwargs, fr, node)
        if k == 'seqmethod':
            return self.seq_method(fn, args, kwargs, fr, node)
        if k == 'contractfn':
            c = self.reg.get(fn.key)
            if c is None:
                raise Unsupported(f"no contract {fn.key} for function-valued variable")
            return self.apply_contract(c, None, self.bind_contract(c, args, kwargs), fr, node)
        if k == 'spec':
            raise Unsupported(f"spec function {fn.name} called in code")
        raise Unsupported(f"call kind {k}")

    # ------------------------------------------------------------------------------------------- methods
    def call_method(self, recv, name, args, kwargs, fr, node, is_property=False):
        if isinstance(recv, VRec):
            fi = self.repo.lookup_method(recv.cls, name)
            if fi is None:
                raise Unsupported(f"method {recv.cls}.{name}")
            return self.call_function(fi, [recv] + list(args), kwargs, fr, node, selfv=recv)
        if isinstance(recv, VOpaque):
            if recv.tag in ('dropped', 'opaque'):
                return VOpaque(None, recv.tag)
            raise Unsupported(f"method {name} on {recv!r}")
        if not isinstance(recv, VRef):
            raise Unsupported(f"method {name} on {recv!r}")
        cls = recv.cls
        if cls is None or cls not in self.repo.classes:
            c = self.reg.get(f"{cls}.{name}")
            if c is not None:
                return self.apply_contract(c, None, self.bind_contract(c, [recv] + list(args), kwargs), fr, node)
            raise Unsupported(f"method {name} on object of unknown class {cls}")
        if recv.nullable and not fr.spec:
            self.oblige('none-deref', recv.z != 0, fr, node, info=f"method {name!r} on possibly-None object")
            self.assume(recv.z != 0)
        fi = self.repo.lookup_method(cls, name)
        if recv.exact:
            if fi is None:
                raise Unsupported(f"method {cls}.{name} not found")
            return self.call_function(fi, [recv] + list(args), kwargs, fr, node, selfv=recv)
        # dynamic dispatch: interface contract along the MRO
        c = self._mro_contract(cls, name)
        if c is not None and c.virtual:
            return self.apply_contract(c, fi, self.bind_contract(c, [recv] + list(args), kwargs), fr, node)
        overriders = [s for s in self.repo.subclasses(cls) if s != (fi.cls if fi else None)
                      and name in self.repo.classes[s].methods and s != cls]
        if fi is not None and not [s for s in overriders if s != fi.cls]:
            return self.call_function(fi, [recv] + list(args), kwargs, fr, node, selfv=recv)
        if c is not None:
            return self.apply_contract(c, fi, self.bind_contract(c, [recv] + list(args), kwargs), fr, node)
        raise Unsupported(f"dynamic dispatch of {cls}.{name} (overridden in {overriders}) without an interface contract")

    def call_function(self, fi: FunctionInfo, args, kwargs, fr, node, selfv=None, closure=None):
        key = f"{fi.cls}.{fi.name}" if fi.cls else fi.qualname
        c = self.reg.get(key)
        verifying_self = (fi.qualname == self.target.qualname and fr.depth == 0 and False)
        if c is not None and not (fi.qualname == self.target.qualname and self.inline_target):
            if not (fi.qualname == self.target.qualname and fr is self.root_frame and False):
                bound = self.bind_contract(c, args, kwargs, fi)
                return self.apply_contract(c, fi, bound, fr, node)
        if key in self.reg.inline_deny:
            raise Unsupported(f"call to {key}: no contract and inlining denied")
        return self.inline(fi, args, kwargs, fr, node, closure)

    def bind_params(self, fi_node, args, kwargs, fr_for_defaults, what):
        a = fi_node.args
        names = [x.arg for x in a.posonlyargs + a.args]
        bound = {}
        args = list(args)
        for i, n in enumerate(names):
            if i < len(args):
                bound[n] = args[i]
        extra = args[len(names):]
        if extra:
            if a.vararg is None:
                raise Unsupported(f"too many positional arguments for {what}")
        if a.vararg is not None:
            bound[a.vararg.arg] = VTuple(extra)
        kw_rest = {}
        kwonly = [x.arg for x in a.kwonlyargs]
        for k, v in kwargs.items():
            if k in names or k in kwonly:
                if k in bound:
                    raise RaiseSig('TypeError')
                bound[k] = v
            elif a.kwarg is not None:
                kw_rest[k] = v
            else:
                raise Unsupported(f"unexpected keyword {k} for {what}")
        if a.kwarg is not None:
            bound[a.kwarg.arg] = VOpaque(kw_rest, 'kwargs')
        defaults = a.defaults
        for i, d in enumerate(defaults):
            n = names[len(names) - len(defaults) + i]
            if n not in bound:
                bound[n] = self.ev(d, fr_for_defaults)
        for n, d in zip(kwonly, a.kw_defaults):
            if n not in bound:
                if d is None:
                    raise Unsupported(f"missing keyword-only argument {n} for {what}")
                bound[n] = self.ev(d, fr_for_defaults)
        for n in names:
            if n not in bound:
                raise Unsupported(f"missing argument {n} for {what}")
        return bound

    def inline(self, fi, args, kwargs, fr, node, closure=None):
        if fr.depth >= self.MAX_DEPTH:
            raise Unsupported(f"inlining depth exceeded at {fi.qualname}")
        f = fr
        while f is not None:
            if f.fi is not None and f.fi.qualname == fi.qualname and f.fi.node is fi.node and f is not fr.parent and \
                    getattr(f, 'is_call_frame', False) and fi.qualname != self.target.qualname:
                pass
            f = getattr(f, 'caller', None)
        if self.call_stack.count(fi.qualname) >= 2:
            raise Unsupported(f"recursive inlining of {fi.qualname}")
        dfr = Frame(None, None, {}, spec=False)
        dfr.module = fi.module
        dfr.noforks = True
        bound = self.bind_params(fi.node, args, kwargs, dfr, fi.qualname)
        nf = Frame(fi, fi.cls, bound, spec=fr.spec, parent=closure)
        nf.depth = fr.depth + 1
        nf.noforks = fr.noforks
        nf.entry_vars = dict(bound)
        nf.old_heap = fr.old_heap
        nf.contract = self.reg.get(f"{fi.cls}.{fi.name}" if fi.cls else fi.qualname) if fi.qualname == self.target.qualname else None
        if fi.is_generator():
            nf.out = VOpaque(None, 'emptyout')
        self.call_stack.append(fi.qualname)
        try:
            if fr.spec or fr.noforks:
                return self.inline_expr_function(fi, nf)
            try:
                self.ex_block(fi.node.body, nf)
                ret = VNone()
            except ReturnSig as r:
                ret = r.value
            if nf.out is not None:
                if isinstance(nf.out, VOpaque):
                    return VTuple([])
                return nf.out
            return ret
        finally:
            self.call_stack.pop()

    def inline_expr_function(self, fi, nf):
        """Pure inlining for spec / quantified contexts: the body must be (docstring +) `return <expr>`, possibly
        preceded by if/elif/else chains of returns."""
        body = [s for s in fi.node.body if not (isinstance(s, ast.Expr) and isinstance(s.value, ast.Constant))]

        def go(stmts):
            if not stmts:
                return VNone()
            s = stmts[0]
            if isinstance(s, ast.Return):
                return self.ev(s.value, nf) if s.value is not None else VNone()
            if isinstance(s, ast.If):
                c = zbool_(self.truth(self.ev(s.test, nf), nf))
                a = go(list(s.body))
                b = go(list(s.orelse) + stmts[1:]) if not ends_with_return(s.orelse) or True else None
                return ite(c, a, b)
            if isinstance(s, ast.Assign) and len(s.targets) == 1 and isinstance(s.targets[0], ast.Name):
                nf.vars[s.targets[0].id] = self.ev(s.value, nf)
                return go(stmts[1:])
            raise Unsupported(f"{fi.qualname} is not an expression function (needed in a non-forking context)")
        return go(body)

    def call_lambda(self, fn, args, kwargs, fr, node):
        dfr = Frame(None, None, {}, spec=False)
        dfr.module = fn.closure.module
        dfr.noforks = True
        lam = fn.node
        fake = ast.FunctionDef(name='<lambda>', args=lam.args, body=[], decorator_list=[])
        bound = self.bind_params(fake, args, kwargs, dfr, '<lambda>')
        nf = Frame(fn.closure.fi, fn.closure.cls, bound, spec=fr.spec, parent=fn.closure)
        nf.module = fn.closure.module
        nf.depth = fr.depth + 1
        nf.noforks = fr.noforks
        nf.entry_vars, nf.old_heap = fr.entry_vars, fr.old_heap
        return self.ev(lam.body, nf)

    # ------------------------------------------------------------------------------------------- constructors
    def construct(self, cls, args, kwargs, fr, node):
        if cls in REC_FIELDS:
            # immutable record: run the real __init__ on a record under construction
            rec = VRec(cls, {})
            fi = self.repo.lookup_method(cls, '__init__')
            self.rec_init(rec, fi, args, kwargs, fr, node)
            return rec
        c = self.reg.get(f"{cls}.__init__")
        obj = self.new_object(cls)
        fi = self.repo.lookup_method(cls, '__init__')
        if c is not None and not (self.target.cls == cls and self.target.name == '__init__' and self.inline_target):
            bound = self.bind_contract(c, [obj] + list(args), kwargs, fi)
            self.apply_contract(c, fi, bound, fr, node, fresh_self=True)
            return obj
        if fi is None:
            return obj
        self.call_function_nocontract(fi, [obj] + list(args), kwargs, fr, node)
        return obj

    def call_function_nocontract(self, fi, args, kwargs, fr, node):
        key = f"{fi.cls}.{fi.name}" if fi.cls else fi.qualname
        c = self.reg.get(key)
        if c is not None and fi.qualname != self.target.qualname:
            return self.apply_contract(c, fi, self.bind_contract(c, args, kwargs, fi), fr, node)
        return self.inline(fi, args, kwargs, fr, node)

    def rec_init(self, rec, fi, args, kwargs, fr, node):
        """Execute a record class' real __init__: `self.x = e` populates the record fields."""
        dfr = Frame(None, None, {}, spec=False)
        dfr.module = fi.module
        dfr.noforks = True
        holder = VOpaque(rec, 'recinit')
        bound = self.bind_params(fi.node, [holder] + list(args), kwargs, dfr, fi.qualname)
        nf = Frame(fi, fi.cls, bound, spec=fr.spec, parent=None)
        nf.depth = fr.depth + 1
        nf.noforks = fr.noforks
        nf.entry_vars, nf.old_heap = fr.entry_vars, fr.old_heap
        selfname = fi.node.args.args[0].arg
        for s in fi.node.body:
            if isinstance(s, ast.Expr) and isinstance(s.value, ast.Constant):
                continue
            tgt = None
            if isinstance(s, ast.Assign) and len(s.targets) == 1:
                tgt, val = s.targets[0], s.value
            elif isinstance(s, ast.AnnAssign) and s.value is not None:
                tgt, val = s.target, s.value
            if tgt is not None and isinstance(tgt, ast.Attribute) and isinstance(tgt.value, ast.Name) \
                    and tgt.value.id == selfname:
                rec.fields[tgt.attr] = self.ev(val, nf)
                continue
            if isinstance(s, ast.If) and not s.orelse and len(s.body) == 1 and isinstance(s.body[0], ast.Raise):
                c = zbool_(self.truth(self.ev(s.test, nf), nf))
                if fr.spec or fr.noforks:
                    continue        # spec-level construction is total
                if self.branch(c, fr):
                    self.ex(s.body[0], nf)
                continue
            raise Unsupported(f"record constructor {fi.qualname}: statement at line {s.lineno}")

    # ------------------------------------------------------------------------------------------- contracts
    def bind_contract(self, c: Contract, args, kwargs, fi=None):
        if fi is not None:
            dfr = Frame(None, None, {}, spec=False)
            dfr.module = fi.module
            dfr.noforks = True
            b = self.bind_params(fi.node, args, kwargs, dfr, fi.qualname)
            return b
        names = list(c.params.keys())
        bound = {}
        for i, a in enumerate(args):
            if i >= len(names):
                raise Unsupported(f"too many arguments for contract {c.key}")
            bound[names[i]] = a
        for k, v in kwargs.items():
            bound[k] = v
        return bound

    def apply_contract(self, c: Contract, fi, bound, fr, node, fresh_self=False):
        """Modular call: assert pre, havoc modifies, assume post."""
        if fr.noforks and (c.modifies or c.allocates or c.may_raise or c.raises) and not c.pure:
            raise Unsupported(f"effectful contract call {c.key} in a quantified context")
        vars_ = {}
        for n, v in bound.items():
            if n in c.params:
                ty = parse_type(c.params[n])
                if ty.kind == 'seq' and isinstance(v, (VView, VTuple)) and not isinstance(v, VSeq):
                    if isinstance(v, VTuple) and not v.items:
                        v = VSeq(z3.IntVal(0), fresh(ty.elem, self.fresh_name('e'), 1), ty.skind)
                    else:
                        v = self.materialize(v)
                if ty.kind == 'seq' and isinstance(v, VOpaque) and v.tag == 'emptylist':
                    v = VSeq(z3.IntVal(0), fresh(ty.elem, self.fresh_name('e'), 1), ty.skind)
                if ty.kind == 'ref' and isinstance(v, VNone):
                    v = VRef(0, ty.cls)
                if ty.kind in ('strid', 'optstrid') and isinstance(v, VOpaque) and v.tag == 'const' and isinstance(v.py, str):
                    v = VInt(self.intern(v.py))
                    v.strid = True
                if ty.kind == 'optdata' and isinstance(v, (VNone, VInt, VOptInt)):
                    v = coerce(v, VOptInt(True, 0))
                    v.data = True
                if ty.kind in ('optint', 'optstrid') and isinstance(v, (VNone, VInt)):
                    v = coerce(v, VOptInt(True, 0))
                if ty.kind in ('optint', 'optstrid', 'optdata') and isinstance(v, (VSeq, VView, VTuple)):
                    # a compound data value passed where the contract identifies data by an id: an unconstrained id
                    v = VOptInt(False, self.fresh_int('dataid'))
                if ty.kind == 'ref' and isinstance(v, VRef):
                    # static class refinement for the spec evaluation
                    pass
            vars_[n] = v
        sf = Frame(fi, fi.cls if fi else None, vars_, spec=True)
        sf.module = fi.module if fi else fr.module
        sf.noforks = True
        sf.entry_vars = dict(vars_)
        sf.old_heap = dict(self.heap)
        # parameter type preconditions
        for n, ts in c.params.items():
            if n not in vars_:
                continue
            ty = parse_type(ts)
            v = vars_[n]
            if ty.kind == 'ref' and isinstance(v, VRef):
                if not ty.nullable and v.nullable:
                    self.oblige('pre@call', v.z != 0, fr, node, info=f"{c.key}: {n} is not None")
                if ty.cls in self.repo.classes and not (v.cls and self.repo.is_subclass(v.cls, ty.cls)):
                    self.oblige('pre@call', z3.Or(v.z == 0, self.isinstance_z(v, ty.cls)), fr, node,
                                info=f"{c.key}: isinstance({n}, {ty.cls})")
        for k, pre in enumerate(c.requires):
            g = self.ev_spec(pre, sf)
            self.oblige('pre@call', g, fr, node, info=f"{c.key}: {pre}")
            self.assume(g)
        # exceptions declared by the contract
        for exc, cond in c.raises.items():
            if cond is None:
                continue
            g = self.ev_spec(cond, sf)
            if self.branch(g, fr):
                raise RaiseSig(exc, None, node)
        if c.may_raise:
            k = self.choose(len(c.may_raise) + 1)
            if k < len(c.may_raise):
                raise RaiseSig(c.may_raise[k], None, node)
        # havoc
        for m in c.modifies:
            if '@' in m:
                fname, at = m.split('@', 1)
                if fresh_self and at.strip() == 'self':
                    continue    # cells of a freshly allocated object are unconstrained already
                ref = self.ev_spec_value(at, sf)
                tree = self.heap_tree(fname, getattr(ref, 'cls', None))
                fv = fresh(type_of(sel(tree, z3.IntVal(0))), self.fresh_name(f"hv.{fname}"))
                if isinstance(fv, VSeq):
                    self.assume(fv.n >= 0)
                self.heap[fname] = sto(tree, ref.z, fv)
            else:
                tree = self.heap_tree(m)
                self.heap[m] = fresh(type_of(sel(tree, z3.IntVal(0))), self.fresh_name('H.' + m), 1)
        result = VNone()
        alloc_before = self.alloc
        if c.allocates:
            na = self.fresh_int('alloc')
            self.assume(na >= self.alloc)
            self.alloc = na
        if c.returns is not None:
            rty = parse_type(c.returns)
            result = fresh(rty, self.fresh_name('ret'))
            self.assume_type(result, rty)
        elif c.yields is not None:
            rty = Ty('seq', elem=parse_type(c.yields), skind='list')
            result = fresh(rty, self.fresh_name('ret'))
            self.assume_type(result, rty)
        sf.vars['result'] = result
        sf.alloc_before = alloc_before
        for post in list(c.ensures) + list(getattr(c, 'assumed_ensures', [])):
            self.assume(self.ev_spec(post, sf))
        return result

    # ------------------------------------------------------------------------------------------- spec evaluation
    def parse_spec(self, s):
        if s not in self._spec_cache:
            self._spec_cache[s] = ast.parse(s.strip(), mode='eval').body
        return self._spec_cache[s]

    def ev_spec_value(self, s, sf):
        return self.ev(self.parse_spec(s), sf)

    def ev_spec(self, s, sf):
        v = self.ev(self.parse_spec(s), sf)
        t = self.truth(v, sf)
        return t if z3.is_expr(t) else z3.BoolVal(t)

    def expand_macro(self, name, args, fr):
        params, expr = self.reg.macros[name]
        if len(params) != len(args):
            raise Unsupported(f"macro {name} arity")
        mf = Frame(fr.fi, fr.cls, dict(zip(params, args)), spec=True, parent=None)
        mf.module = fr.module
        mf.noforks = True
        mf.entry_vars, mf.old_heap = fr.entry_vars, fr.old_heap
        mf.alloc_before = getattr(fr, 'alloc_before', None)
        return self.ev(self.parse_spec(expr), mf)

    def spec_call(self, node, fr):
        f = node.func
        if isinstance(f, ast.Name):
            name = f.id
            if name in fr.vars and not isinstance(fr.vars[name], VCallable):
                raise Unsupported(f"call of variable {name} in spec")
            if name == 'old':
                saved = self.heap, fr.vars
                self.heap = dict(fr.old_heap)
                ev = dict(fr.vars)
                ev.update(fr.entry_vars or {})
                fr.vars = ev
                try:
                    return self.ev(node.args[0], fr)
                finally:
                    new_fields = {k: v for k, v in self.heap.items() if k not in fr.old_heap}
                    self.heap, fr.vars = saved
                    for k, v in new_fields.items():
                        # a field first touched inside old(): same array in both states unless written since
                        fr.old_heap[k] = v
                        if k not in self.heap:
                            self.heap[k] = v
            if name in ('forall', 'exists', 'forall_ref'):
                return self.quantifier(name, node, fr)
            if name == 'sumof':
                return self.spec_sum(node, fr)
            if name in self.reg.macros:
                return self.expand_macro(name, [self.ev(a, fr) for a in node.args], fr)
            if name in self.reg.ufs:
                sorts = self.reg.ufs[name]
                fn = self.uf(name, *sorts)
                zargs = []
                for a in node.args:
                    v = self.ev(a, fr)
                    zargs.append(v.z if isinstance(v, (VInt, VRef, VOptInt)) else (v.z if isinstance(v, VBool) else None))
                    if zargs[-1] is None:
                        if isinstance(v, VNone):
                            zargs[-1] = z3.IntVal(0)
                        else:
                            raise Unsupported(f"UF {name} argument {v!r}")
                r = fn(*zargs)
                return VBool(r) if sorts[-1] == 'bool' else VInt(r)
            args = [self.ev(a, fr) for a in node.args]
            if name == 'implies':
                return VBool(z3.Implies(zbool_(self.truth(args[0], fr)), zbool_(self.truth(args[1], fr))))
            if name == 'iff':
                return VBool(zbool_(self.truth(args[0], fr)) == zbool_(self.truth(args[1], fr)))
            if name == 'ite':
                return ite(zbool_(self.truth(args[0], fr)), args[1], args[2])
            if name == 'eqv':
                return VBool(self.veq(args[0], args[1], node_eq=True))
            if name == 'seqeq':
                return VBool(self.veq(args[0], args[1], node_eq=False))
            if name == 'typeis':
                cls = args[1].py
                return VBool(z3.And(args[0].z != 0, self.cls_of(args[0].z) == self.repo.class_ids[cls]))
            if name == 'isinstance':
                cls = node.args[1].id if isinstance(node.args[1], ast.Name) else args[1].py
                return VBool(self.isinstance_z(args[0], cls))
            if name == 'isold':
                return VBool(z3.And(args[0].z > 0, args[0].z < self.alloc0))
            if name == 'isnew':
                base = getattr(fr, 'alloc_before', None)
                if base is None:
                    base = self.alloc0
                return VBool(z3.And(args[0].z >= base, args[0].z < self.alloc))
            if name == 'isnone':
                return VBool(zbool_(self.identical(args[0], VNone())))
            if name == 'notnone':
                return VBool(z3.Not(zbool_(self.identical(args[0], VNone()))))
            if name == 'len':
                return self.builtin('len', args, {}, fr, node)
            if name in ('min', 'max', 'abs'):
                return self.builtin(name, args, {}, fr, node)
            fi = self.repo.function(f"{fr.module}.{name}") if fr.module else None
            if fi is not None:
                return self.inline(fi, args, {}, fr, node)
            raise Unsupported(f"spec function {name}")
        if isinstance(f, ast.Attribute):
            recv = self.ev(f.value, fr)
            args = [self.ev(a, fr) for a in node.args]
            if isinstance(recv, VRec):
                fi = self.repo.lookup_method(recv.cls, f.attr)
                if fi is None:
                    raise Unsupported(f"spec method {recv.cls}.{f.attr}")
                return self.inline(fi, [recv] + args, {}, fr, node)
            if isinstance(recv, VRef) and recv.cls in self.repo.classes:
                fi = self.repo.lookup_method(recv.cls, f.attr)
                if fi is not None:
                    return self.inline(fi, [recv] + args, {}, fr, node)
            raise Unsupported(f"spec method call .{f.attr} on {recv!r}")
        raise Unsupported("spec call form")

    def spec_sum(self, node, fr):
        """sumof(k, lo, hi, e(k)): the sum of e(k) for lo <= k < hi (0 unless 0 <= lo <= hi).

        Encoded with a prefix-sum function S_e(n) = e(0) + ... + e(n-1) introduced by its recursive definition (a conservative
        definitional extension: S_e(0) = 0, S_e(n) = S_e(n-1) + e(n-1) for n > 0).  The function is hash-consed on the z3 term
        of the summand, so two occurrences whose summands are the same term in the current state (same heap arrays, same
        free variables) denote the same function - which is what lets a loop invariant advance by one unfolding without
        induction.  Summands that differ (e.g. after a heap write to a field they read) get unrelated functions."""
        if self.in_quant:
            raise Unsupported("sumof inside a quantifier")
        var, lo, hi, body = node.args
        iv = z3.Int('sumk!' + var.id)
        inner = Frame(fr.fi, fr.cls, {var.id: VInt(iv)}, spec=True, parent=fr)
        inner.module = fr.module
        inner.noforks = True
        inner.entry_vars, inner.old_heap = fr.entry_vars, fr.old_heap
        inner.alloc_before = getattr(fr, 'alloc_before', None)
        self.in_quant += 1
        try:
            e = z3.simplify(self.as_int(self.ev(body, inner)))
        finally:
            self.in_quant -= 1
        key = e.sexpr()
        S = self._sumdefs.get(key)
        if S is None:
            S = z3.Function(self.fresh_name('psumof'), I, I)
            self._sumdefs[key] = S
            n = self.fresh_int('n')
            self.assume(S(0) == 0)
            self.assume(z3.ForAll([n], z3.Implies(n > 0, S(n) == S(n - 1) + z3.substitute(e, (iv, n - 1))), patterns=[S(n)]))
        lo_z, hi_z = self.as_int(self.ev(lo, fr)), self.as_int(self.ev(hi, fr))
        return VInt(z3.If(z3.And(lo_z >= 0, lo_z <= hi_z), S(hi_z) - S(lo_z), 0))

    def quantifier(self, name, node, fr):
        a = node.args
        if len(a) == 4:
            var, lo, hi, body = a
        elif len(a) == 2:
            var, body = a
            lo = hi = None
        else:
            raise Unsupported("quantifier arity")
        if not isinstance(var, ast.Name):
            raise Unsupported("quantifier variable")
        iv = self.fresh_int(var.id)
        is_ref = name == 'forall_ref'
        inner = Frame(fr.fi, fr.cls, {var.id: (VRef(iv, None, nullable=False) if is_ref else VInt(iv))}, spec=True, parent=fr)
        inner.module = fr.module
        inner.noforks = True
        inner.entry_vars, inner.old_heap = fr.entry_vars, fr.old_heap
        inner.alloc_before = getattr(fr, 'alloc_before', None)
        guards = []
        if lo is not None:
            guards.append(iv >= self.as_int(self.ev(lo, fr)))
            guards.append(iv < self.as_int(self.ev(hi, fr)))
        if is_ref:
            guards.append(iv > 0)
            name = 'forall'
        self.in_quant += 1
        try:
            b = zbool_(self.truth(self.ev(body, inner), inner))
        finally:
            self.in_quant -= 1
        if name == 'forall':
            return VBool(z3.ForAll([iv], z3.Implies(z3.And(guards), b) if guards else b))
        return VBool(z3.Exists([iv], z3.And(guards + [b])))

    # ------------------------------------------------------------------------------------------- builtins
    def builtin(self, name, args, kwargs, fr, node):
        if name == 'len':
            v = args[0]
            if isinstance(v, (VSeq, VView)):
                self.seq_nonnull(v, fr, node, 'len')
                return VInt(v.n)
            if isinstance(v, VTuple):
                return VInt(len(v.items))
            if isinstance(v, (VRef, VRec)):
                if fr.spec:
                    fi = self.repo.lookup_method(v.cls, '__len__')
                    if fi is None:
                        raise Unsupported(f"len of {v.cls} in spec")
                    return self.inline(fi, [v], {}, fr, node)
                r = self.call_method(v, '__len__', [], {}, fr, node)
                return r
            if isinstance(v, VOpaque) and v.tag == 'emptylist':
                return VInt(0)
            if isinstance(v, VOpaque) and v.tag == 'str':
                # the length of an unknown str: some non-negative integer
                r = self.fresh_int('strlen')
                self.assume(r >= 0)
                return VInt(r)
            raise Unsupported(f"len of {v!r}")
        if name == 'open':
            c = self.reg.get('builtins.open')
            if c is None:
                return VOpaque('file', 'opaque')
            return self.apply_contract(c, None, self.bind_contract(c, args[:1], {}), fr, node)
        if name == 'ghost_list':
            return VSeq(z3.IntVal(0), fresh(parse_type(args[0].py), self.fresh_name('ghost'), 1), 'list')
        if name == 'assume':
            # explicit assumption inside ghost code: counted and listed in the evidence (never used to hide a failure)
            g = self.ev_spec(node.args[0].value if isinstance(node.args[0], ast.Constant) else ast.unparse(node.args[0]),
                             self.spec_env(fr))
            self.assume(g)
            return VNone()
        if name == 'check':
            # mid-point assertion inside ghost code: a named obligation (spec expression as a string), then available as a fact
            text = node.args[0].value if isinstance(node.args[0], ast.Constant) else ast.unparse(node.args[0])
            g = self.ev_spec(text, self.spec_env(fr))
            self.oblige('assert', g, fr, node, info=text)
            self.assume(g)
            return VNone()
        if name == 'range':
            xs = [self.as_int(a) for a in args]
            if len(xs) == 1:
                lo, hi = z3.IntVal(0), xs[0]
            elif len(xs) == 2:
                lo, hi = xs
            else:
                raise Unsupported("range with step")
            n = z3.simplify(z3.If(hi - lo > 0, hi - lo, 0))
            return VView(n, lambda i: VInt(lo + i), 'range', elem_ty=T_INT)
        if name == 'zip':
            srcs = [self.iter_source(a, fr, node) for a in args]
            srcs = [self.materialize(s) if isinstance(s, VTuple) and s.items else s for s in srcs]
            if any(isinstance(s, VTuple) for s in srcs):
                return VTuple([])
            n = srcs[0].n
            for s in srcs[1:]:
                n = z3.If(s.n < n, s.n, n)
            return VView(z3.simplify(n), lambda i: VTuple([seq_get(s, i) for s in srcs]), 'zip')
        if name == 'enumerate':
            s = self.iter_source(args[0], fr, node)
            if isinstance(s, VTuple):
                return VTuple([VTuple([VInt(k), it]) for k, it in enumerate(s.items)])
            return VView(s.n, lambda i: VTuple([VInt(i), seq_get(s, i)]), 'zip')
        if name == 'reversed':
            s = self.iter_source(args[0], fr, node)
            if isinstance(s, VTuple):
                return VTuple(list(reversed(s.items)))
            return VView(s.n, lambda i: seq_get(s, s.n - 1 - i), s.skind, elem_ty=type_of(s).elem)
        if name in ('iter', 'cast'):
            return args[-1] if name == 'cast' else self.iter_source(args[0], fr, node)
        if name in ('list', 'tuple'):
            if not args:
                return VOpaque('emptylist', 'emptylist') if name == 'list' else VTuple([])
            s = self.iter_source(args[0], fr, node)
            if isinstance(s, VTuple):
                if name == 'tuple':
                    return s
                return self.materialize(s) if s.items else VOpaque('emptylist', 'emptylist')
            m = self.materialize(s) if isinstance(s, VView) else VSeq(s.n, s.elem, s.skind)
            m.skind = name
            return m
        if name in ('min', 'max'):
            if len(args) == 1:
                s = self.iter_source(args[0], fr, node)
                if isinstance(s, VTuple):
                    args = s.items
                else:
                    return self.minmax_seq(name, s, fr, node)
            if any(isinstance(a, VOptInt) for a in args):
                for a in args:
                    if isinstance(a, VOptInt) and not fr.spec:
                        self.oblige('no-raise', z3.Not(a.isnone), fr, node, info='TypeError: min/max with None')
                        self.assume(z3.Not(a.isnone))
                args = [VInt(a.z) if isinstance(a, VOptInt) else a for a in args]
            xs = [self.as_int(a) for a in args]
            r = xs[0]
            for x in xs[1:]:
                r = z3.If(x < r, x, r) if name == 'min' else z3.If(x > r, x, r)
            return VInt(r)
        if name == 'abs':
            x = self.as_int(args[0])
            return VInt(z3.If(x < 0, -x, x))
        if name == 'isinstance':
            cn = node.args[1]
            names = []
            for t in (cn.elts if isinstance(cn, ast.Tuple) else [cn]):
                names.append(t.id if isinstance(t, ast.Name) else t.attr)
            return VBool(z3.Or([self.isinstance_z(args[0], n) for n in names]))
        if name == 'int':
            v = args[0]
            if isinstance(v, (VInt, VBool)):
                return VInt(self.as_int(v))
            raise Unsupported(f"int({v!r})")
        if name == 'bool':
            return VBool(zbool_(self.truth(args[0], fr)))
        if name == 'str' and args and isinstance(args[0], (VSeq, VView)) and args[0].skind == 'str':
            return args[0]
        if name in ('str', 'repr'):
            return VOpaque(None, 'str')
        if name == 'type' and len(args) == 1:
            return VOpaque(None, 'type')
        if name == 'id':
            if isinstance(args[0], VRef):
                return VInt(args[0].z)
            if isinstance(args[0], (VOpaque, VCallable)):
                # module-level singletons / classes: a fixed identity distinct from every heap object and every value
                import zlib
                return VInt(-(10**9) - zlib.crc32(repr((args[0].__dict__.get('py'), args[0].__dict__.get('cls'),
                                                         args[0].__dict__.get('name'))).encode()))
            if isinstance(args[0], (VInt, VBool, VNone, VSeq, VTuple)):
                v = self.fresh_int('id')
                self.assume(z3.And(v > -(10**9), v < 0))     # identities of plain values never coincide with singletons / objects
                return VInt(v)
            raise Unsupported("id() of non-object")
        if name in ('sum', 'len') and isinstance(args[0], VOpaque) and args[0].tag == 'dropped':
            return VOpaque(None, 'dropped')
        if name == 'sum':
            s = self.iter_source(args[0], fr, node)
            if isinstance(s, VTuple):
                r = args[1] if len(args) > 1 else VInt(0)
                for it in s.items:
                    r = self.binop(ast.Add(), r, it, fr, node)
                return r
            return self.sum_seq(s, fr, node)
        if name in ('all', 'any'):
            s = self.iter_source(args[0], fr, node)
            if isinstance(s, VTuple):
                zs = [zbool_(self.truth(it, fr)) for it in s.items]
                return VBool(z3.And(zs + [z3.BoolVal(True)]) if name == 'all' else z3.Or(zs + [z3.BoolVal(False)]))
            k = self.fresh_int('a')
            body = zbool_(self.truth(seq_get(s, k), fr))
            rng = z3.And(k >= 0, k < s.n)
            return VBool(z3.ForAll([k], z3.Implies(rng, body)) if name == 'all' else z3.Exists([k], z3.And(rng, body)))
        if name == 'super':
            sv = fr.vars.get(fr.fi.node.args.args[0].arg) if fr.fi and fr.fi.node.args.args else None
            if not isinstance(sv, (VRef, VOpaque)):
                raise Unsupported("super() without self")
            return VCallable('super', selfv=sv, after=fr.cls)
        if name == 'print':
            return VNone()
        if name == 'hash':
            return VInt(self.fresh_int('hash'))
        if name == 'exit':
            raise RaiseSig('SystemExit', None, node)
        if name == 'set' or name == 'frozenset':
            if not args:
                return VOpaque('emptyset', 'emptyset')
        if name == 'itertools.chain':
            if len(args) == 2:
                a = self.iter_source(args[0], fr, node)
                b = self.iter_source(args[1], fr, node)
                if isinstance(a, VTuple) and not a.items:
                    return b
                if isinstance(a, VTuple):
                    a = self.materialize(a)
                if isinstance(b, VTuple):
                    if not b.items:
                        return a
                    b = self.materialize(b)
                return self.seq_concat(a, b)
        if name == 'getattr' and self.reg.get('builtins.getattr') is not None and isinstance(args[1], (VSeq, VView)):
            c = self.reg.get('builtins.getattr')
            return self.apply_contract(c, None, self.bind_contract(c, args, kwargs), fr, node)
        if name == 'getattr':
            if isinstance(args[1], VOpaque) and args[1].tag == 'const':
                return self.getattr(args[0], args[1].py, fr, node)
            if isinstance(args[1], VOpaque) and args[1].tag == 'str' and isinstance(args[1].py, list) \
                    and len(args[1].py) == 2 and isinstance(args[1].py[0], str) and isinstance(args[1].py[1], VInt) \
                    and args[1].py[0] in getattr(self.reg, 'getattr_templates', {}) and isinstance(args[0], VRef):
                # getattr(obj, f'<prefix>{i}'): modelled as the i-th element of a declared per-object table
                fld = self.reg.getattr_templates[args[1].py[0]]
                tab = self.heap_get(args[0], fld)
                i = args[1].py[1].z
                self.oblige('no-raise', z3.And(i >= 0, i < tab.n), fr, node, info='AttributeError')
                return seq_get(tab, i)
        raise Unsupported(f"builtin {name} with {len(args)} args")

    def minmax_seq(self, name, s, fr, node):
        if not fr.spec:
            self.oblige('no-raise', s.n > 0, fr, node, info=f'ValueError: {name}() of empty sequence')
            self.assume(s.n > 0)
        r = self.fresh_int(name)
        k = self.fresh_int('k')
        e = self.as_int(seq_get(s, k))
        self.assume(z3.ForAll([k], z3.Implies(z3.And(k >= 0, k < s.n), (r <= e) if name == 'min' else (r >= e))))
        w = self.fresh_int('w')
        self.assume(z3.And(w >= 0, w < s.n, r == self.as_int(seq_get(s, w))))
        return VInt(r)

    def sum_seq(self, s, fr, node):
        """sum over a symbolic sequence: the prefix-sum function of `sumof` (recursive definition as axioms), hash-consed on
        the element term written over the index variable `sumk!k` - so `sum(e(x) for x in xs)` in the code and
        `sumof(k, 0, len(xs), e(xs[k]))` in a contract denote the same function when the summands are the same term."""
        iv = z3.Int('sumk!k')
        if getattr(s, 'comp_def', None) is not None:
            # the sequence is a comprehension [e(x) for x in xs]: sum its defining element term
            e = z3.simplify(z3.substitute(s.comp_def[1], (s.comp_def[0], iv)))
        else:
            e = z3.simplify(self.as_int(seq_get(s, iv)))
        key = e.sexpr()
        ps = self._sumdefs.get(key)
        if ps is None:
            ps = z3.Function(self.fresh_name('psumof'), I, I)
            self._sumdefs[key] = ps
            n = self.fresh_int('n')
            self.assume(ps(0) == 0)
            self.assume(z3.ForAll([n], z3.Implies(n > 0, ps(n) == ps(n - 1) + z3.substitute(e, (iv, n - 1))), patterns=[ps(n)]))
        self.last_psum = ps
        self.sum_lower_bound_lemma(ps, e, iv, s.n)
        return VInt(ps(s.n))

    def sum_lower_bound_lemma(self, ps, e, iv, n):
        """Induction schema for prefix sums (trusted meta-theorem, proved by induction on m on paper; the step
        `S(m) >= c*m and e(m) >= c  =>  S(m+1) >= c*(m+1)` is linear): if every summand below n is at least the constant c then
        S(m) >= c*m for every 0 <= m <= n.  Instantiated for c = 0 and c = 1."""
        k, m = self.fresh_int('lk'), self.fresh_int('lm')
        for c in (0, 1):
            hyp = z3.ForAll([k], z3.Implies(z3.And(k >= 0, k < n), z3.substitute(e, (iv, k)) >= c))
            self.assume(z3.Implies(hyp, z3.ForAll([m], z3.Implies(z3.And(m >= 0, m <= n), ps(m) >= c * m), patterns=[ps(m)])))

    def const_method(self, fn, args, fr, node):
        recv, attr = fn.py
        try:
            pyargs = []
            for a in args:
                if isinstance(a, VOpaque) and a.tag == 'const':
                    pyargs.append(a.py)
                elif isinstance(a, VInt) and z3.is_int_value(z3.simplify(a.z)):
                    pyargs.append(z3.simplify(a.z).as_long())
                else:
                    return VOpaque(None, 'str')
            return self.lift_const(getattr(recv, attr)(*pyargs))
        except Exception:
            return VOpaque(None, 'str')

    def seq_method(self, fn, args, kwargs, fr, node):
        s, name = fn.seq, fn.name
        if name == 'append':
            v = args[0]
            if isinstance(s, VOpaque):      # empty list literal: element type from the first append
                if isinstance(v, (VView,)):
                    v = self.materialize(v)
                s = VSeq(z3.IntVal(0), fresh(type_of(v), self.fresh_name('lst'), 1), 'list')
            elif isinstance(s, VView):
                s = self.materialize(s)
            new = seq_append(s, v)
            org = fn.origin
            if org is None:
                raise Unsupported("append to a temporary list")
            self.write_back(ast.Name(id=org[1], ctx=ast.Load()) if org[0] == 'var' else org[1], new, fr)
            return VNone()
        if isinstance(s, (VSeq, VView)) and s.skind == 'dict' and name in ('items', 'values', 'keys') and not args:
            d = s
            if name == 'items':
                return VView(d.n, lambda i: seq_get(d, i), 'list', elem_ty=type_of(d).elem)
            k = 0 if name == 'keys' else 1
            return VView(d.n, lambda i: seq_get(d, i).items[k], 'list', elem_ty=type_of(d).elem.items[k])
        if name == 'add' and (isinstance(s, VOpaque) and s.tag == 'emptyset' or isinstance(s, VSeq) and s.skind == 'set'):
            v = args[0]
            if isinstance(s, VOpaque):
                s = VSeq(z3.IntVal(0), fresh(type_of(v), self.fresh_name('set'), 1), 'set')
            # modelling assumption: elements added to a set in the supported functions are pairwise different objects
            new = seq_append(s, v)
            org = fn.origin
            if org is None:
                raise Unsupported("add to a temporary set")
            self.write_back(ast.Name(id=org[1], ctx=ast.Load()) if org[0] == 'var' else org[1], new, fr)
            return VNone()
        if name == 'startswith' and isinstance(s, (VSeq, VView)) and s.skind == 'str' and len(args) == 1 and \
                isinstance(args[0], VOpaque) and args[0].tag == 'const' and isinstance(args[0].py, str):
            pre = args[0].py
            conds = [s.n >= len(pre)] + [self.as_int(seq_get(s, z3.IntVal(k))) == ord(ch) for k, ch in enumerate(pre)]
            return VBool(z3.And(conds))
        if name in ('keys', 'values', 'items', 'elements', 'copy', 'index', 'count', 'extend', 'pop', 'sort'):
            raise Unsupported(f"sequence/dict method {name}")
        raise Unsupported(f"sequence method {name}")


def zbool_(x):
    return x if z3.is_expr(x) else z3.BoolVal(bool(x))


def ends_with_return(stmts):
    return bool(stmts) and isinstance(stmts[-1], ast.Return)
