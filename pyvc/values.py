"""Symbolic values for pyvc.

A value is a small tree whose leaves are z3 terms.  The same classes are used for *lifted* values (heap fields,
sequence elements) whose leaves are z3 arrays indexed by Int; `sel`/`sto` peel / update the outermost index."""
import itertools
import z3

I = z3.IntSort()
B = z3.BoolSort()


class Unsupported(Exception):
    """The executor met something outside the supported subset: the function is out of reach (never a violation)."""


# ---------------------------------------------------------------------------------------------------- types
class Ty:
    def __init__(self, kind, **kw):
        self.kind = kind
        self.__dict__.update(kw)

    def __repr__(self):
        if self.kind == 'ref':
            return ('optref' if self.nullable else 'ref') + f'[{self.cls}]'
        if self.kind == 'seq':
            return f'{self.skind}[{self.elem!r}]' if self.skind != 'str' else 'str'
        if self.kind == 'tuple':
            return 'tuple[' + ','.join(map(repr, self.items)) + ']'
        if self.kind == 'rec':
            return f'rec[{self.cls}]'
        return self.kind


T_INT = Ty('int')
T_BOOL = Ty('bool')
T_NONE = Ty('none')
T_OPAQUE = Ty('opaque')
REC_FIELDS = {'Range': (('lower_bound', T_INT), ('upper_bound', T_INT))}


def parse_type(s: str) -> Ty:
    s = s.strip()
    pos = [0]

    def ident():
        st = pos[0]
        while pos[0] < len(s) and (s[pos[0]].isalnum() or s[pos[0]] in '_.'):
            pos[0] += 1
        return s[st:pos[0]]

    def ws():
        while pos[0] < len(s) and s[pos[0]] == ' ':
            pos[0] += 1

    def args():
        res = []
        ws()
        assert s[pos[0]] == '[', s
        pos[0] += 1
        while True:
            ws()
            res.append(ty())
            ws()
            if s[pos[0]] == ',':
                pos[0] += 1
                continue
            assert s[pos[0]] == ']', s
            pos[0] += 1
            return res

    def ty():
        ws()
        name = ident()
        if name == 'int':
            return T_INT
        if name == 'bool':
            return T_BOOL
        if name == 'none':
            return T_NONE
        if name == 'dropped':
            return Ty('dropped')
        if name == 'opaque':
            if pos[0] < len(s) and s[pos[0]] == ':':
                pos[0] += 1
                return Ty('opaque', tag=ident())
            return T_OPAQUE
        if name == 'str':
            return Ty('seq', elem=T_INT, skind='str')
        if name in ('ref', 'optref'):
            ws()
            assert s[pos[0]] == '['
            pos[0] += 1
            cls = ident()
            assert s[pos[0]] == ']'
            pos[0] += 1
            return Ty('ref', cls=cls, nullable=(name == 'optref'))
        if name in ('seq', 'list'):
            return Ty('seq', elem=args()[0], skind='list')
        if name == 'optlist':
            return Ty('seq', elem=args()[0], skind='list', nullable=True)
        if name == 'tupleseq':
            return Ty('seq', elem=args()[0], skind='tuple')
        if name == 'set':
            return Ty('seq', elem=args()[0], skind='set')
        if name == 'dict':
            kv = args()
            return Ty('seq', elem=Ty('tuple', items=kv), skind='dict')
        if name == 'tuple':
            return Ty('tuple', items=args())
        if name == 'rec':
            ws()
            assert s[pos[0]] == '['
            pos[0] += 1
            cls = ident()
            assert s[pos[0]] == ']'
            pos[0] += 1
            return Ty('rec', cls=cls)
        if name == 'optint':
            return Ty('optint')
        if name == 'strid':
            return Ty('strid')
        if name == 'optstrid':
            return Ty('optstrid')
        if name == 'optdata':
            return Ty('optdata')
        raise ValueError(f"bad type {s!r} at {name!r}")

    t = ty()
    ws()
    assert pos[0] == len(s), f"trailing junk in type {s!r}"
    return t


# ---------------------------------------------------------------------------------------------------- values
class V:
    pass


class VInt(V):
    def __init__(self, z):
        self.z = z if z3.is_expr(z) else z3.IntVal(z)

    def __repr__(self):
        return f"VInt({self.z})"


class VBool(V):
    def __init__(self, z):
        self.z = z if z3.is_expr(z) else z3.BoolVal(z)

    def __repr__(self):
        return f"VBool({self.z})"


class VRef(V):
    def __init__(self, z, cls=None, exact=False, nullable=True):
        self.z = z if z3.is_expr(z) else z3.IntVal(z)
        self.cls = cls
        self.exact = exact
        self.nullable = nullable

    def __repr__(self):
        return f"VRef({self.z}:{self.cls})"


class VNone(V):
    def __repr__(self):
        return "VNone"


class VOptInt(V):
    """Optional[int]: (is_none, value)"""
    def __init__(self, isnone, z):
        self.isnone = isnone if z3.is_expr(isnone) else z3.BoolVal(isnone)
        self.z = z if z3.is_expr(z) else z3.IntVal(z)


class VTuple(V):
    def __init__(self, items):
        self.items = list(items)

    def __repr__(self):
        return f"VTuple({self.items})"


class VRec(V):
    def __init__(self, cls, fields):
        self.cls = cls
        self.fields = dict(fields)

    def __repr__(self):
        return f"VRec({self.cls},{self.fields})"


_oid = itertools.count(1)


class VSeq(V):
    """Array-backed sequence: n is an Int leaf, elem is the element tree lifted by one index dimension."""
    def __init__(self, n, elem, skind='list', oid=None, nullable=False):
        self.n = n if z3.is_expr(n) else z3.IntVal(n)
        self.elem = elem
        self.skind = skind
        self.oid = oid if oid is not None else next(_oid)
        self.nullable = nullable        # None is encoded as n == -1

    def __repr__(self):
        return f"VSeq(n={self.n},{self.skind})"


class VView(V):
    """Derived read-only sequence (zip, slice, reversed, range, repeat): n and a getter over a z3 Int index."""
    def __init__(self, n, getter, skind='list', elem_ty=None):
        self.n = n if z3.is_expr(n) else z3.IntVal(n)
        self.getter = getter
        self.skind = skind
        self.elem_ty = elem_ty

    def __repr__(self):
        return f"VView(n={self.n},{self.skind})"


class VOpaque(V):
    """A concrete Python constant (string literal, ...) or a dropped object (logger, progress bar)."""
    def __init__(self, py=None, tag='const'):
        self.py = py
        self.tag = tag

    def __repr__(self):
        return f"VOpaque({self.py!r},{self.tag})"


class VCallable(V):
    def __init__(self, kind, **kw):
        self.kind = kind
        self.__dict__.update(kw)

    def __repr__(self):
        return f"VCallable({self.kind})"


# ---------------------------------------------------------------------------------------------------- tree ops
def _arr_sort(leaf, dims):
    s = leaf
    for _ in range(dims):
        s = z3.ArraySort(I, s)
    return s


def fresh(ty: Ty, name: str, dims: int = 0) -> V:
    k = ty.kind
    if k == 'int':
        return VInt(z3.Const(name, _arr_sort(I, dims)))
    if k == 'bool':
        return VBool(z3.Const(name, _arr_sort(B, dims)))
    if k == 'ref':
        return VRef(z3.Const(name, _arr_sort(I, dims)), ty.cls, nullable=ty.nullable)
    if k == 'optint':
        return VOptInt(z3.Const(name + '?', _arr_sort(B, dims)), z3.Const(name, _arr_sort(I, dims)))
    if k == 'strid':
        v = VInt(z3.Const(name, _arr_sort(I, dims)))
        v.strid = True
        return v
    if k == 'optstrid':
        v = VOptInt(z3.Const(name + '?', _arr_sort(B, dims)), z3.Const(name, _arr_sort(I, dims)))
        v.strid = True
        return v
    if k == 'optdata':
        # an arbitrary Python data value identified by an id; its truthiness is uninterpreted
        v = VOptInt(z3.Const(name + '?', _arr_sort(B, dims)), z3.Const(name, _arr_sort(I, dims)))
        v.data = True
        return v
    if k == 'tuple':
        return VTuple([fresh(t, f"{name}.{i}", dims) for i, t in enumerate(ty.items)])
    if k == 'rec':
        return VRec(ty.cls, {f: fresh(t, f"{name}.{f}", dims) for f, t in REC_FIELDS[ty.cls]})
    if k == 'seq':
        return VSeq(z3.Const(name + '#n', _arr_sort(I, dims)), fresh(ty.elem, name + '[]', dims + 1), ty.skind,
                    nullable=getattr(ty, 'nullable', False))
    if k == 'none':
        return VNone()
    if k == 'dropped':
        return VOpaque(None, 'dropped')     # printers / formatters: calls on them are dropped by extraction
    if k == 'opaque':
        return VOpaque(getattr(ty, 'tag', None), 'opaque')
    raise Unsupported(f"fresh of type {ty!r}")


def type_of(v: V) -> Ty:
    if isinstance(v, VInt):
        return Ty('strid') if getattr(v, 'strid', False) else T_INT
    if isinstance(v, VBool):
        return T_BOOL
    if isinstance(v, VRef):
        return Ty('ref', cls=v.cls, nullable=v.nullable)
    if isinstance(v, VOptInt):
        if getattr(v, 'data', False):
            return Ty('optdata')
        return Ty('optstrid') if getattr(v, 'strid', False) else Ty('optint')
    if isinstance(v, VTuple):
        return Ty('tuple', items=[type_of(i) for i in v.items])
    if isinstance(v, VRec):
        return Ty('rec', cls=v.cls)
    if isinstance(v, VSeq):
        return Ty('seq', elem=type_of(v.elem), skind=v.skind, nullable=v.nullable)
    if isinstance(v, VView):
        if v.elem_ty is not None:
            return Ty('seq', elem=v.elem_ty, skind=v.skind)
        return Ty('seq', elem=type_of(v.getter(z3.IntVal(0))), skind=v.skind)
    if isinstance(v, VNone):
        return T_NONE
    if isinstance(v, VOpaque):
        return T_OPAQUE
    raise Unsupported(f"type_of {v!r}")


def sel(tree: V, i) -> V:
    """Peel the outermost index dimension of a lifted tree."""
    if isinstance(tree, VInt):
        r = VInt(z3.Select(tree.z, i))
        if getattr(tree, 'strid', False):
            r.strid = True
        return r
    if isinstance(tree, VBool):
        return VBool(z3.Select(tree.z, i))
    if isinstance(tree, VRef):
        return VRef(z3.Select(tree.z, i), tree.cls, nullable=tree.nullable)
    if isinstance(tree, VOptInt):
        r = VOptInt(z3.Select(tree.isnone, i), z3.Select(tree.z, i))
        if getattr(tree, 'strid', False):
            r.strid = True
        if getattr(tree, 'data', False):
            r.data = True
        return r
    if isinstance(tree, VTuple):
        return VTuple([sel(t, i) for t in tree.items])
    if isinstance(tree, VRec):
        return VRec(tree.cls, {f: sel(t, i) for f, t in tree.fields.items()})
    if isinstance(tree, VSeq):
        return VSeq(z3.Select(tree.n, i), sel(tree.elem, i), tree.skind, nullable=tree.nullable)
    if isinstance(tree, (VNone, VOpaque)):
        return tree
    raise Unsupported(f"sel on {tree!r}")


def coerce(v: V, like: V) -> V:
    """Coerce v to the shape of `like` (None -> null ref, bool<->int where Python allows)."""
    if isinstance(like, VRef):
        if isinstance(v, VNone):
            return VRef(0, like.cls)
        if isinstance(v, VRef):
            return v
    if isinstance(like, VOptInt):
        if isinstance(v, VNone):
            return VOptInt(True, 0)
        if isinstance(v, VInt):
            return VOptInt(False, v.z)
        if isinstance(v, VOptInt):
            return v
    if isinstance(like, VInt):
        if isinstance(v, VInt):
            return v
        if isinstance(v, VBool):
            return VInt(z3.If(v.z, 1, 0))
        if isinstance(v, VOptInt) and z3.is_false(z3.simplify(v.isnone)):
            return VInt(v.z)
    if isinstance(like, VBool):
        if isinstance(v, VBool):
            return v
    if isinstance(like, VTuple) and isinstance(v, VTuple) and len(v.items) == len(like.items):
        return VTuple([coerce(a, b) for a, b in zip(v.items, like.items)])
    if isinstance(like, VRec) and isinstance(v, VRec) and v.cls == like.cls:
        return v
    if isinstance(like, VSeq) and isinstance(v, VSeq):
        return v
    if isinstance(like, (VNone, VOpaque)):
        return v
    raise Unsupported(f"cannot store {v!r} into slot shaped like {like!r}")


def sto(tree: V, i, v: V) -> V:
    """Functional update of a lifted tree at outermost index i."""
    v = coerce(v, tree) if not isinstance(tree, VSeq) else v
    if isinstance(tree, VInt):
        return VInt(z3.Store(tree.z, i, v.z))
    if isinstance(tree, VBool):
        return VBool(z3.Store(tree.z, i, v.z))
    if isinstance(tree, VRef):
        return VRef(z3.Store(tree.z, i, v.z), tree.cls, nullable=tree.nullable)
    if isinstance(tree, VOptInt):
        return VOptInt(z3.Store(tree.isnone, i, v.isnone), z3.Store(tree.z, i, v.z))
    if isinstance(tree, VTuple):
        return VTuple([sto(t, i, x) for t, x in zip(tree.items, v.items)])
    if isinstance(tree, VRec):
        return VRec(tree.cls, {f: sto(t, i, v.fields[f]) for f, t in tree.fields.items()})
    if isinstance(tree, VSeq):
        if isinstance(v, VNone):
            if not tree.nullable:
                raise Unsupported("None stored into a sequence slot not declared optional (optlist[...])")
            return VSeq(z3.Store(tree.n, i, z3.IntVal(-1)), tree.elem, tree.skind, nullable=True)
        if not isinstance(v, VSeq):
            raise Unsupported(f"store of non-materialised sequence {v!r}")
        return VSeq(z3.Store(tree.n, i, v.n), sto_tree(tree.elem, i, v.elem), tree.skind, nullable=tree.nullable)
    if isinstance(tree, (VNone, VOpaque)):
        return tree
    raise Unsupported(f"sto on {tree!r}")


def sto_tree(tree: V, i, sub: V) -> V:
    """Store a whole (lower-dimensional) lifted subtree at index i of every leaf array."""
    if isinstance(tree, VInt):
        return VInt(z3.Store(tree.z, i, sub.z))
    if isinstance(tree, VBool):
        return VBool(z3.Store(tree.z, i, sub.z))
    if isinstance(tree, VRef):
        return VRef(z3.Store(tree.z, i, sub.z), tree.cls, nullable=tree.nullable)
    if isinstance(tree, VOptInt):
        return VOptInt(z3.Store(tree.isnone, i, sub.isnone), z3.Store(tree.z, i, sub.z))
    if isinstance(tree, VTuple):
        return VTuple([sto_tree(t, i, x) for t, x in zip(tree.items, sub.items)])
    if isinstance(tree, VRec):
        return VRec(tree.cls, {f: sto_tree(t, i, sub.fields[f]) for f, t in tree.fields.items()})
    if isinstance(tree, VSeq):
        return VSeq(z3.Store(tree.n, i, sub.n), sto_tree(tree.elem, i, sub.elem), tree.skind, nullable=tree.nullable)
    if isinstance(tree, (VNone, VOpaque)):
        return tree
    raise Unsupported(f"sto_tree on {tree!r}")


def ite(c, a: V, b: V) -> V:
    if isinstance(a, VNone) and isinstance(b, VNone):
        return a
    if isinstance(a, VNone) and isinstance(b, VRef):
        a = VRef(0, b.cls)
    if isinstance(b, VNone) and isinstance(a, VRef):
        b = VRef(0, a.cls)
    if isinstance(a, VInt) and isinstance(b, VBool):
        b = VInt(z3.If(b.z, 1, 0))
    if isinstance(b, VInt) and isinstance(a, VBool):
        a = VInt(z3.If(a.z, 1, 0))
    if isinstance(a, VInt) and isinstance(b, VInt):
        return VInt(z3.If(c, a.z, b.z))
    if isinstance(a, VBool) and isinstance(b, VBool):
        return VBool(z3.If(c, a.z, b.z))
    if isinstance(a, VRef) and isinstance(b, VRef):
        return VRef(z3.If(c, a.z, b.z), a.cls if a.cls == b.cls else (a.cls or b.cls))
    if isinstance(a, VTuple) and isinstance(b, VTuple) and len(a.items) == len(b.items):
        return VTuple([ite(c, x, y) for x, y in zip(a.items, b.items)])
    if isinstance(a, VRec) and isinstance(b, VRec) and a.cls == b.cls:
        return VRec(a.cls, {f: ite(c, a.fields[f], b.fields[f]) for f in a.fields})
    if isinstance(a, VSeq) and isinstance(b, VSeq):
        return VSeq(z3.If(c, a.n, b.n), ite(c, a.elem, b.elem), a.skind)
    if isinstance(a, VOptInt) or isinstance(b, VOptInt):
        a = coerce(a, VOptInt(True, 0))
        b = coerce(b, VOptInt(True, 0))
        return VOptInt(z3.If(c, a.isnone, b.isnone), z3.If(c, a.z, b.z))
    raise Unsupported(f"ite of {a!r} and {b!r}")


def seq_len(s):
    return s.n


def seq_get(s, i) -> V:
    if isinstance(s, VSeq):
        r = sel(s.elem, i)
        if s.skind == 'str' and isinstance(r, VInt):
            r.char = True       # an element of a str is a one-character str (identified with its code point)
        return r
    if isinstance(s, VView):
        r = s.getter(i)
        if s.skind == 'str' and isinstance(r, VInt):
            r.char = True
        return r
    if isinstance(s, VTuple):
        if z3.is_int_value(i):
            return s.items[i.as_long()]
        # symbolic index into concrete tuple: ite chain
        res = s.items[-1]
        for k in range(len(s.items) - 2, -1, -1):
            res = ite(i == k, s.items[k], res)
        return res
    raise Unsupported(f"seq_get on {s!r}")


def seq_set(s: VSeq, i, v: V) -> VSeq:
    return VSeq(s.n, sto(s.elem, i, v), s.skind, s.oid, nullable=s.nullable)


def seq_append(s: VSeq, v: V) -> VSeq:
    return VSeq(s.n + 1, sto(s.elem, s.n, v), s.skind, s.oid)


def empty_seq(elem_ty: Ty, name: str, skind='list') -> VSeq:
    return VSeq(z3.IntVal(0), fresh(elem_ty, name, 1), skind)


def leaves(v: V):
    if isinstance(v, (VInt, VBool, VRef)):
        yield v.z
    elif isinstance(v, VOptInt):
        yield v.isnone
        yield v.z
    elif isinstance(v, VTuple):
        for t in v.items:
            yield from leaves(t)
    elif isinstance(v, VRec):
        for t in v.fields.values():
            yield from leaves(t)
    elif isinstance(v, VSeq):
        yield v.n
        yield from leaves(v.elem)
