"""C13 - any input type can be rendered in any output format and mode."""
import itertools
import json
import pickle
import plistlib

from vlib import gt
from vlib.par import pmap, timeout_failure

PROPERTY = 'C13'
LEVEL = 'other'
TARGETS = [('adapters', 'xml._json_print_XMLElement'), ('adapters', 'yaml.YAMLFormatter.print_ContainerNode'),
           ('adapters', 'json.JSONFormatter.print_ContainerNode')]
TRUSTED = ['container constructors re-parent every child and the parent setter raises for an already-parented child '
           '(description of ContainerNode.__init_subclass__ and TreeNode.parent.setter, not executed by the VC generator)',
           'tree invariant: children of a loaded container have that container as parent', 'copy() returns a parentless tree']
ASSUMPTIONS = ['printer / formatter calls inside the adapters are dropped']
EXPLANATION = (
    "Deductive: the defect class named in the anchors is a violated precondition - formatter adapters that wrap nodes of "
    "the tree being printed into temporary containers re-parent them, which the parent setter refuses with ValueError. "
    "Obligations no-raise at every container construction inside xml._json_print_XMLElement, YAMLFormatter."
    "print_ContainerNode and JSONFormatter.print_ContainerNode under the tree invariant. The reflective formatter "
    "dispatch is out of reach: the finite configuration space is enumerated completely by the bounded stand-in: 8 input "
    "types x 8 output formats x {full, -e, -d} x {plain, --color, --html} x {-j, none} x {equal, different} documents "
    "through graphtage.__main__.main: no exception other than SystemExit, exit status 0 or 1.")
TYPES = ['json', 'json5', 'yaml', 'csv', 'xml', 'html', 'plist', 'pickle']


def _null_files(tf):
    """Third pair (types with a null value only): documents containing null."""
    import yaml
    a, b = {"n": None, "l": [None]}, {"n": None, "l": [None, 1]}
    out = {}
    out['json'] = (tf.write(json.dumps(a), '.json'), tf.write(json.dumps(b), '.json'))
    out['json5'] = (tf.write(json.dumps(a), '.json5'), tf.write(json.dumps(b), '.json5'))
    out['yaml'] = (tf.write(yaml.safe_dump(a), '.yml'), tf.write(yaml.safe_dump(b), '.yml'))
    out['pickle'] = (tf.write(pickle.dumps(a), '.pkl', binary=True), tf.write(pickle.dumps(b), '.pkl', binary=True))
    return out


def _bytes_files(tf):
    """Fourth pair (pickle only): bytes values."""
    a, b = {"b": b"abc", "l": [b"x"]}, {"b": b"abd", "l": [b"y", b"z"]}
    return {'pickle': (tf.write(pickle.dumps(a), '.pkl', binary=True), tf.write(pickle.dumps(b), '.pkl', binary=True))}


def _kind_files(tf):
    """Sixth pair (pickle only): a value that is a mapping in one document and a set / list / tuple in the other (a mapping
    compared with a multiset that is not a mapping crashed before repository fix 6e3e961)."""
    a = {"name": "alpha", "v": {"k": 1, "j": [2]}, "w": {1, 2}, "t": (1, 2)}
    b = {"name": "alpha", "v": {1, 2, "k"}, "w": {"1": 1}, "t": {"a": (1, 2)}}
    return {'pickle': (tf.write(pickle.dumps(a), '.pkl', binary=True), tf.write(pickle.dumps(b), '.pkl', binary=True))}


def _kind_files_top(tf):
    """Seventh pair (pickle only): the same at top level."""
    return {'pickle': (tf.write(pickle.dumps({"name": "alpha"}), '.pkl', binary=True), tf.write(pickle.dumps({1, 2}), '.pkl', binary=True))}


def _long_files(tf):
    """Fifth pair per type: strings longer than a terminal line, strings with embedded line breaks and unusual line
    separators - values whose rendering is written in pieces spanning several lines."""
    import yaml
    long1 = ' '.join(['lorem ipsum dolor sit amet consectetur adipiscing'] * 5)
    long2 = long1.replace('dolor', 'color', 1)
    a = {"title": "short", "description": long1, "notes": "line one\nline two\n\nline four", "sep": "a\u2028b\x0cc\x0bd\re", "n": 1, "items": [1, 2, 3]}
    b = {"title": "short", "description": long1, "notes": "line one\nline 2\n\nline four", "sep": "a\u2028b\x0cc\x0bd\rf", "n": 2, "items": [1, 3, 4],
         "extra": long2}
    pa = {k: v for k, v in a.items() if k != 'sep'}
    pb = {k: v for k, v in b.items() if k != 'sep'}
    out = {}
    out['json'] = (tf.write(json.dumps(a), '.json'), tf.write(json.dumps(b), '.json'))
    out['json5'] = (tf.write(json.dumps(a), '.json5'), tf.write(json.dumps(b), '.json5'))
    out['yaml'] = (tf.write(yaml.safe_dump(a), '.yml'), tf.write(yaml.safe_dump(b), '.yml'))
    out['csv'] = (tf.write(f'h1,h2\n"{long1}","two\nlines"\n', '.csv'), tf.write(f'h1,h2\n"{long2}","two\nlines\u2028x"\n1,2\n', '.csv'))
    out['xml'] = (tf.write(f'<r a="{long1}"><b>{long1}\nsecond line\u2028third</b><c/></r>', '.xml'),
                  tf.write(f'<r a="{long2}"><b>{long2}\nsecond line\u2028third</b><d/></r>', '.xml'))
    out['html'] = (tf.write(f'<html><body><p>{long1}\nsecond line</p></body></html>', '.html'),
                   tf.write(f'<html><body><p>{long2}\nsecond line</p><br/></body></html>', '.html'))
    out['plist'] = (tf.write(plistlib.dumps(pa), '.plist', binary=True), tf.write(plistlib.dumps(pb), '.plist', binary=True))
    out['pickle'] = (tf.write(pickle.dumps(a), '.pkl', binary=True), tf.write(pickle.dumps(b), '.pkl', binary=True))
    return out


def _rich_files(tf):
    """Second document pair per type: every scalar kind the type can express, empty and nested containers, non-ASCII
    text and - where the type allows them (YAML, pickle) - mapping keys that are not strings."""
    import yaml
    a = {"s": "caf\u00e9 <&> \"q\"", "i": -3, "f": 2.5, "t": True, "e": [], "o": {}, "l": [[1, [2]], {"k": [0]}]}
    b = {"s": "cafe <&>", "i": 4, "f": -0.5, "t": False, "e": [1], "o": {"x": {}}, "l": [[1, [3]], {"j": []}]}
    ka = {1: "one", 2.5: "f", True: "b", "s": {3: [4]}}
    kb = {1: "uno", 7: "seven", False: "b", "s": {3: [5], 4: 4}}
    pa, pb = a, b
    out = {}
    out['json'] = (tf.write(json.dumps(a), '.json'), tf.write(json.dumps(b), '.json'))
    out['json5'] = (tf.write(json.dumps(a), '.json5'), tf.write(json.dumps(b), '.json5'))
    out['yaml'] = (tf.write(yaml.safe_dump({**a, **ka}), '.yml'), tf.write(yaml.safe_dump({**b, **kb}), '.yml'))
    out['csv'] = (tf.write('h1,h2\n"a,b",\n,\n', '.csv'), tf.write('h1,h2,h3\n"q""x",1,\n', '.csv'))
    out['xml'] = (tf.write('<r a="1" b="2">t<b>caf\u00e9</b>tail<c/><d><e x="y">z</e></d></r>', '.xml'),
                  tf.write('<r b="3">u<b/><d><e>w</e><e/></d></r>', '.xml'))
    out['html'] = (tf.write('<html><head><title>t</title></head><body><div id="a"><p>x</p>y</div></body></html>', '.html'),
                   tf.write('<html><body><div id="b"><p>x</p><p>z</p></div></body></html>', '.html'))
    out['plist'] = (tf.write(plistlib.dumps(pa), '.plist', binary=True), tf.write(plistlib.dumps(pb), '.plist', binary=True))
    out['pickle'] = (tf.write(pickle.dumps({**a, **ka, "tup": (1, 2), "set": {1, 2, "x"}, "fs": frozenset([3]), "nested": [{4, 5}]}),
                              '.pkl', binary=True),
                     tf.write(pickle.dumps({**b, **kb, "tup": (1,), "set": {1, 3, "x"}, "fs": frozenset([3]), "nested": [{4, 6}]}),
                              '.pkl', binary=True))
    return out


def _files(tf, variant=0):
    import yaml
    if variant:
        return {1: _rich_files, 2: _null_files, 3: _bytes_files, 4: _long_files, 5: _kind_files, 6: _kind_files_top}[variant](tf)
    a, b = {"a": [1, 2, {"b": "x"}], "c": "str"}, {"a": [1, 3, {"b": "y"}], "d": "str"}
    out = {}
    out['json'] = (tf.write(json.dumps(a), '.json'), tf.write(json.dumps(b), '.json'))
    out['json5'] = (tf.write(json.dumps(a), '.json5'), tf.write(json.dumps(b), '.json5'))
    out['yaml'] = (tf.write(yaml.safe_dump(a), '.yml'), tf.write(yaml.safe_dump(b), '.yml'))
    out['csv'] = (tf.write("a,b,c\n1,2,3\n", '.csv'), tf.write("a,b,d\n1,5,3\nx,y,z\n", '.csv'))
    out['xml'] = (tf.write('<root a="1"><b>text</b><c d="2"/></root>', '.xml'), tf.write('<root a="2"><b>other</b><e/></root>', '.xml'))
    out['html'] = (tf.write('<html><body><p class="x">hi</p></body></html>', '.html'),
                   tf.write('<html><body><p class="y">ho</p><br/></body></html>', '.html'))
    out['plist'] = (tf.write(plistlib.dumps(a), '.plist', binary=True), tf.write(plistlib.dumps(b), '.plist', binary=True))
    out['pickle'] = (tf.write(pickle.dumps([1, "a", {"k": 2}]), '.pkl', binary=True), tf.write(pickle.dumps([1, "b", {"k": 3}]), '.pkl', binary=True))
    return out


def _job(job):
    intype, fmt, mode, style, cond, differ = job[:6]
    variant = job[6] if len(job) > 6 else 0
    tf = gt.TempFiles()
    fails = []
    try:
        files = _files(tf, variant)
        pa, pb = files[intype]
        argv = [pa, pb if differ else pa, '--no-status', f'--from-{intype}', f'--to-{intype}', '--format', fmt] + mode + style + cond
        rc, out, err, exc = gt.run_cli(argv)
        if '--color' in style:
            import colorama
            colorama.deinit()
        if exc is not None:
            cls = f"c13-exception:{type(exc).__name__}:{intype}->{fmt}"
            if fmt == 'plist' and isinstance(exc, TypeError) and "unsupported type: <class 'NoneType'>" in str(exc):
                cls = 'c13-plist-null'      # plist has no null: plistlib.dumps(None) in PLISTFormatter.write_obj
            if variant == 3 and isinstance(exc, TypeError) and "object of type 'int' has no len()" in str(exc):
                cls = 'c13-bytes-diff'      # StringNode.edits on the int elements of a bytes payload
            if 'Parent is already assigned' in str(exc):
                if "KeyValuePairNode(key=StringNode('tag')" in str(exc) and intype in ('xml', 'html') and fmt not in ('xml', 'html', 'yaml'):
                    cls = 'c13-reparent:xml-element-adapter'
                elif '.parent = ListNode(' in str(exc) and fmt == 'yaml':
                    cls = 'c13-reparent:yaml-container-fallback'
                else:
                    cls = f"c13-reparent:{intype}->{fmt}"
            fails.append({'what': f"main({' '.join(argv[2:])}) on {intype} input raised {type(exc).__name__}: {str(exc)[:160]}", 'class': cls})
        elif rc not in (0, 1):
            fails.append({'what': f"exit status {rc} for {' '.join(argv[2:])} on {intype} input; stderr {err[-160:]!r}",
                          'class': f'c13-exit-status:{intype}->{fmt}'})
        elif (rc == 1) != differ and not mode:
            fails.append({'what': f"exit status {rc} but documents {'differ' if differ else 'are equal'} ({intype} -> {fmt})",
                          'class': f'c13-wrong-status:{intype}->{fmt}'})
    finally:
        tf.cleanup()
    for f in fails:
        f['input'] = {'job': list(job)}
        f['replay'] = {'kind': 'config', 'job': list(job)}
    return fails


def _sub_job(job):
    """The real command in a subprocess with the status / progress output left on (neither --no-status nor --quiet): the
    rendering then passes through the status writer.  Configurations that already fail in-process are reported by _job."""
    import os
    import subprocess
    import sys
    intype, fmt, mode, style, cond, differ, variant, repo = job
    if _job((intype, fmt, mode, style, cond, differ, variant)):
        return []
    tf = gt.TempFiles()
    fails = []
    try:
        pa, pb = _files(tf, variant)[intype]
        env = dict(os.environ)
        env['PYTHONPATH'] = repo + os.pathsep + env.get('PYTHONPATH', '')
        args = [pa, pb if differ else pa, f'--from-{intype}', f'--to-{intype}', '--format', fmt] + mode + style + cond
        p = subprocess.run([sys.executable, '-m', 'graphtage'] + args, env=env, capture_output=True, text=True, timeout=100)
        if p.returncode not in (0, 1) or 'Traceback (most recent call last)' in p.stderr:
            last = [ln for ln in p.stderr.strip().splitlines() if ln.strip()]
            fails.append({'what': f"`graphtage {' '.join(args[2:])}` on {intype} input with the status output on: exit status {p.returncode}; "
                                  f"{last[-1][:200] if last else '<no stderr>'} (the same configuration with --no-status completes)",
                          'class': f'c13-status-on-internal-error:{intype}->{fmt}'})
        elif (p.returncode == 1) != differ and not mode:
            fails.append({'what': f"exit status {p.returncode} with the status output on but documents {'differ' if differ else 'are equal'} ({intype} -> {fmt})",
                          'class': f'c13-wrong-status:{intype}->{fmt}'})
    finally:
        tf.cleanup()
    for f in fails:
        f['input'] = {'job': list(job[:7])}
        f['replay'] = {'kind': 'subprocess', 'job': list(job[:7])}
    return fails


def witnesses(func_result, ob, repo_root, tier):
    fn = func_result['function']
    cands = []
    if 'xml._json_print_XMLElement' in fn:
        cands = [('xml', 'json', [], [], [], True), ('html', 'json', [], [], [], False)]
    elif 'YAMLFormatter' in fn:
        cands = [('xml', 'yaml', [], [], [], True), ('plist', 'yaml', [], [], [], True)]
    elif 'JSONFormatter' in fn:
        cands = [('plist', 'json', [], [], [], True), ('csv', 'json', [], [], [], True)]
    for c in cands:
        f = _job(c)
        if f:
            return f[:1]
    return []


def replay(entry, repo_root):
    r = entry.get('replay') or {}
    if r.get('kind') == 'config':
        j = r['job']
        f = _job(tuple(j))
        return f[0]['what'] if f else None
    if r.get('kind') == 'subprocess':
        f = _sub_job(tuple(r['job']) + (repo_root,))
        return f[0]['what'] if f else None
    return None


def bounded(tier, seed, repo_root):
    modes = [[], ['-e'], ['-d']]
    styles = [['--no-color'], ['--color'], ['--html'], ['--color', '--html']]      # (HTML output with colour forced on)
    conds = [[], ['-j']]
    jobs = [(i, f, m, s, c, d) for i in TYPES for f in TYPES for m in modes for s in styles for c in conds for d in (True, False)]
    rich = [(i, f, m, st, [], d, 1) for i in TYPES for f in TYPES for m in modes for d in (True, False)
            for st in (['--no-color'], ['--color', '--html'])]
    rich += [(i, f, m, ['--no-color'], [], d, 2) for i in ('json', 'json5', 'yaml', 'pickle') for f in TYPES for m in modes for d in (True, False)]
    rich += [('pickle', f, m, ['--no-color'], [], d, 3) for f in TYPES for m in modes for d in (True, False)]
    rich += [('pickle', f, m, ['--no-color'], c, True, v) for f in TYPES for m in modes for c in ([], ['-k']) for v in (5, 6)]
    rich += [(i, f, m, st, [], d, 4) for i in TYPES for f in TYPES for m in modes for d in (True, False)
             for st in (['--no-color'], ['--color'])]
    jobs += rich
    fails = [f for fs in pmap(_job, jobs, repo_root, chunksize=8, job_timeout=60, on_timeout=timeout_failure('C13')) for f in fs]
    sub = [(i, f, m, ['--no-color'], [], d, 4, repo_root) for i in TYPES for f in TYPES for m in modes for d in (True, False)]
    sub += [(i, f, [], st, c, True, 0, repo_root) for i in TYPES for f in TYPES for st, c in ((['--no-color'], ['-j']), (['--color'], []))]
    if tier != 'quick':
        sub += [(i, f, m, st, [], d, v, repo_root) for i in TYPES for f in TYPES for m in modes for d in (True, False) for v in (0, 1)
                for st in (['--no-color'], ['--html'])]
    fails += [f for fs in pmap(_sub_job, sub, repo_root, chunksize=2, job_timeout=150, on_timeout=timeout_failure('C13')) for f in fs]
    return [{
        'name': 'C13.configuration-matrix', 'bound': f"{len(TYPES)} input types x {len(TYPES)} output formats x 3 modes x 4 styles x 2 "
        f"(condensed) x 2 (equal / different documents) = {len(jobs) - len(rich)} runs of main() on one plain document pair per type, plus {len(rich)} runs (types x formats x modes x equal/different) "
        f"on a second pair per type with every scalar kind, empty/nested containers, non-ASCII text and non-string mapping keys (YAML, pickle), a third pair containing null (json, json5, yaml, pickle), a fourth with bytes values (pickle) a fifth with strings longer than a line / with embedded line separators, a sixth and seventh (pickle) where a mapping is compared with a set / list; "
        f"{len(sub)} runs of the real command in a subprocess with the status output left on",
        'evaluations': len(jobs) + len(sub), 'distinct_nontrivial': len(jobs) + len(sub), 'exhaustive': True,
        'rule': 'configuration -> graphtage.__main__.main completes without an exception other than SystemExit, exit status in {0,1}',
        'failures': fails, 'samples': [list(j) for j in jobs[100:103]],
    }]
