"""C01 - the edit script turns the first document into the second."""
import itertools
from collections import Counter
import random

from vlib import docs as D
from vlib import gt, walk
from vlib.par import pmap

PROPERTY = 'C01'
LEVEL = 'other'
TARGETS = [
    ('xmledit', 'xml.XMLElementEdit.__init__'), ('xmledit', 'xml.XMLElementEdit.edits'),
    ('editdistance_init', 'levenshtein.EditDistance.__init__'),
    ('core', 'edits.Match.__init__'), ('core', 'edits.Replace.__init__'), ('core', 'edits.Remove.__init__'),
    ('core', 'edits.Insert.__init__'),
    ('sequences', 'sequences.FixedLengthSequenceEdit.__init__'), ('sequences', 'sequences.FixedLengthSequenceEdit.edits'),
    ('bounded', 'graphtage.KeyValuePairEdit.edits'),
    ('editdistance', 'levenshtein.EditDistance._add_node'), ('editdistance', 'levenshtein.EditDistance._best_match'),
    ('editdistance', 'levenshtein.EditDistance._fringe_diagonal'), ('editdistance', 'levenshtein.EditDistance._next_fringe'),
    ('editdistance', 'levenshtein.EditDistance.edits'),
]
TRUSTED = [
    'interface E(X): x.edits(y) returns a pair edit for (x, y) (assumed at dynamic dispatch; PLISTNode.edits satisfies '
    'it only for PLISTNode arguments)',
    'structural induction over the height of the first tree (paper step) composes the per-container partitions',
    'coupling of ghost ranges of constant-cost edits with their constant cost (justified by discharged contracts and a '
    'mechanical no-override check)',
]
ASSUMPTIONS = ['numpy cost cells are mathematical integers', 'TreeNode.total_size is non-negative and immutable']
EXPLANATION = (
    "Deductive: for FixedLengthSequenceEdit the constructor pairs positions 0..k-1 and keeps exactly the surplus tail, "
    "and edits() yields those pairs then one Remove/Insert per tail element, in order; for EditDistance every matrix "
    "cell is typed (Remove of the source element / Insert of the target element / pair of both), _best_match returns "
    "one of the three neighbours with the matching cell, and the back-trace of edits() is a monotone lattice path from "
    "(m,n) to (0,0) (ghost coordinates) preceded by the prefix matches and followed by the suffix matches - i.e. every "
    "source and target element is covered exactly once in order. Bounded stand-in for the classes out of reach "
    "(MultiSetEdit, FixedKeyDictNode, XML, CSV, diff annotations): whole-tree oracle over small document pairs x 9 "
    "option combinations x {JSON, multiset, XML, CSV} checking the partition at every level and the annotations.")


def witnesses(func_result, ob, repo_root, tier):
    """Concrete failing inputs for a refuted/undecided obligation: run the tree oracle on inputs that exercise the function."""
    fn = func_result['function']
    out = []
    if 'FixedLengthSequenceEdit' in fn:
        lists = [[1, 2, 3], [1, 5], [], [7], [1, 2], [4, 5, 6, 7]]
        jobs = [('json', a, b, o) for a in lists for b in lists for o in gt.OPTION_COMBOS if not o['allow_list_edits'] or not o['allow_list_edits_when_same_length']]
    elif 'EditDistance' in fn:
        lists = [[1, 2, 3], [1, 5, 3], [], [7], [2, 1], [[1], [2, 3]], [[1], 2, [2, 3], 4], 'abc', 'axc', 'bc', '']
        jobs = [('json', a, b, gt.OPTION_COMBOS[0]) for a in lists for b in lists]
    else:
        return out
    for j in jobs:
        fs = [f for f in _check(j) if f['class'].startswith('c01-')]
        if fs:
            out.append(fs[0])
            if len(out) >= 3:
                break
    return out


def replay(entry, repo_root):
    r = entry.get('replay') or {}
    if r.get('kind') == 'doc':
        fs = [f for f in _check((r['fmt'], r['a'], r['b'], r['opt'])) if f['class'].startswith('c01-')]
        return fs[0]['what'] if fs else None
    return None


def _build(fmt, x, opt):
    if fmt == 'json':
        return gt.build(x, opt)
    if fmt == 'xml':
        return gt.build_xml(x, opt)
    if fmt == 'csv':
        return gt.build_csv(x, opt)
    if fmt == 'mset':
        return gt.build_multiset(x, opt)
    raise ValueError(fmt)


def _norm(o):
    """to_obj() values compared up to HashableCounter/dict representation."""
    from collections import Counter
    if isinstance(o, Counter):
        return ('mset', tuple(sorted((repr(_norm(k)), v) for k, v in o.items())))
    if isinstance(o, dict):
        return ('map', tuple(sorted((repr(_norm(k)), repr(_norm(v))) for k, v in o.items())))
    if isinstance(o, (list, tuple)):
        return ('seq', tuple(_norm(x) for x in o))
    if hasattr(o, 'tag') and hasattr(o, 'attrib'):
        return ('xml', str(o))
    return ('leaf', repr(o))


JOB_TIMEOUT = 30


def _has_dups(fmt, x):
    return fmt == 'mset' and len({repr(i) for i in x}) < len(x)


def _matcher_dups(fmt, a, b):
    """The listed finding multiset-duplicates: after the exact matches are taken out, some element is left over two or
    more times on one side, i.e. equal nodes reach WeightedBipartiteMatcher (whose matching is a dict keyed by node).
    Duplicates that are all matched exactly (shared repeated members) are NOT that finding."""
    if fmt != 'mset':
        return False
    ca, cb = Counter(repr(i) for i in a), Counter(repr(i) for i in b)
    return any(v >= 2 for v in (ca - cb).values()) or any(v >= 2 for v in (cb - ca).values())


def _partial_dups(fmt, a, b):
    """The listed finding multiset-partial-duplicate: an element occurs k >= 2 times on one side and 1..k-1 times on the
    other, so ONE node object (HashableCounter keeps a single key for equal nodes) is both matched and removed/inserted."""
    if fmt != 'mset':
        return False
    ca, cb = Counter(repr(i) for i in a), Counter(repr(i) for i in b)
    return any((ca[k] >= 2 and 0 < cb[k] < ca[k]) or (cb[k] >= 2 and 0 < ca[k] < cb[k]) for k in set(ca) | set(cb))


def _check(job):
    from vlib.par import with_timeout, JobTimeout
    fmt, a, b, opt = job
    dup = _matcher_dups(fmt, a, b)
    try:
        fails = with_timeout(_check_inner, job, 4 if dup else JOB_TIMEOUT, count=not dup)
        if dup:
            for f in fails:
                f['class'] = 'c01-multiset-duplicates'
        elif _partial_dups(fmt, a, b):
            for f in fails:
                if f['class'] == 'c01-annotation-count':
                    f['class'] = 'c01-multiset-partial-duplicate-annotation'
        return fails
    except JobTimeout:
        return [{'what': f"no result within {4 if dup else JOB_TIMEOUT}s [{fmt}: {a!r} -> {b!r}, opt={opt}]",
                 'class': 'c01-multiset-duplicates' if dup else 'c01-timeout',
                 'input': {'fmt': fmt, 'a': a, 'b': b, 'opt': opt}, 'replay': {'kind': 'doc', 'fmt': fmt, 'a': a, 'b': b, 'opt': opt}}]


def _check_inner(job):
    fmt, a, b, opt = job
    fails = []
    try:
        ta, tb = _build(fmt, a, opt), _build(fmt, b, opt)
        e = ta.edits(tb)
        walk.refine(e)
        walk.walk(e, ta, tb, opt, fails)
        # annotations pushed by diff(): the edited copy is the first document; removed + kept + inserted account for both
        d = ta.diff(tb)
        if gt.snapshot(d) != gt.snapshot(ta):
            fails.append({'what': f"edited copy returned by diff() is not the first document: {gt.snapshot(d)!r} vs {gt.snapshot(ta)!r}",
                          'class': 'c01-diff-copy'})
        _check_annotations(d, tb, fails)
    except Exception as ex:
        fails.append({'what': f"{type(ex).__name__}: {ex}", 'class': f'c01-exception:{type(ex).__name__}'})
    for f in fails:
        f['what'] = f"{f['what']} [{fmt}: {a!r} -> {b!r}, opt={opt}]"
        f['input'] = {'fmt': fmt, 'a': a, 'b': b, 'opt': opt}
        f['replay'] = {'kind': 'doc', 'fmt': fmt, 'a': a, 'b': b, 'opt': opt}
    return fails


def _check_annotations(d, tb, fails):
    """Every container of the annotated tree: children not marked removed, plus the nodes it lists as inserted, are as
    many as the children of the node it was matched to."""
    import graphtage
    from graphtage.tree import EditedTreeNode
    for n in d.dfs():
        if not isinstance(n, EditedTreeNode) or not isinstance(n, graphtage.SequenceNode):
            continue
        tgt = n.matched_to
        if tgt is None and n.edit is not None and not n.removed:
            tgt = getattr(n.edit, 'to_node', None)
        if tgt is None or not isinstance(tgt, graphtage.SequenceNode) or n.removed:
            continue
        if n.edit is None or isinstance(n.edit, (graphtage.Replace,)):
            continue
        if isinstance(n.edit, graphtage.Match):
            continue
        kept = [c for c in n.children() if not getattr(c, 'removed', False)]
        total = len(kept) + len(n.inserted)
        if total != len(list(tgt.children())):
            fails.append({'what': f"annotated container {n!r}: {len(kept)} kept + {len(n.inserted)} inserted children but its "
                                  f"target {tgt!r} has {len(list(tgt.children()))}", 'class': 'c01-annotation-count'})


def bounded(tier, seed, repo_root):
    atoms = [0, 1, "", "ab", "ac", None]
    docs = D.enum_docs(4 if tier == 'quick' else 5, atoms=atoms, keys=['a', 'b'])
    budget = 60000 if tier == 'quick' else 600000
    pairs, exhaustive = D.sample_pairs(docs, budget, seed)
    jobs = [('json', a, b, gt.OPTION_COMBOS[i % 9]) for i, (a, b) in enumerate(pairs)]
    # equal-prefix / suffix and duplicate lists, nested three levels
    rnd = random.Random(seed)
    base = [[1, 2, 3, 4], [1, 2, 9, 4], [1, 1, 1], [1, 1], [[1, 2], [1, 2], 3], [[1], [[2], 3]], [[3], [1, 2]], [[1], [1, 2], [[2], 3]],
            {"a": [1, 2], "b": {"a": 1}}, {"a": [1, 3], "c": {"a": 1}}, {"a": 1, "b": 2, "c": 3}, {"b": 2, "d": 4}]
    for a in base:
        for b in base:
            for o in gt.OPTION_COMBOS:
                jobs.append(('json', a, b, o))
    for a, b in D.hash_collision_pairs():      # distinct values with equal Python hashes (-1 / -2, n / n + 2**61 - 1)
        for o in gt.OPTION_COMBOS[::2]:
            jobs.append(('json', a, b, o))
    xs = gt.xml_specs()
    for a in xs:
        for b in xs:
            jobs.append(('xml', a, b, gt.OPTION_COMBOS[rnd.randrange(9)]))
    cs = gt.csv_specs()
    for _ in range(1500 if tier == 'quick' else 15000):
        jobs.append(('csv', rnd.choice(cs), rnd.choice(cs), gt.OPTION_COMBOS[rnd.randrange(9)]))
    small = D.enum_docs(2, atoms=[0, 1, "a"], keys=['a'])
    msets = [list(c) for n in (0, 1, 2, 3) for c in itertools.combinations(small[:8], n)]
    dups = [list(c) for n in (2, 3) for c in itertools.combinations_with_replacement(small[:5], n) if len(set(map(repr, c))) < len(c)]
    for _ in range(3000 if tier == 'quick' else 30000):
        jobs.append(('mset', rnd.choice(msets), rnd.choice(msets), gt.OPTION_COMBOS[rnd.randrange(9)]))
    for _ in range(48 if tier == 'quick' else 480):     # duplicate elements (see known finding multiset-duplicates)
        jobs.append(('mset', rnd.choice(dups), rnd.choice(msets + dups), gt.OPTION_COMBOS[rnd.randrange(9)]))
    # shared repeated members (every copy has an exact partner on the other side): all pairs of small multisets that
    # share a duplicated element and differ elsewhere
    shared = [[0, 0], [1, 1, 1], ["a", "a"], [[0], [0]], [{"a": 0}, {"a": 0}]]
    extra = [[], [1], ["a"], [[1]], [0, "a"], [{"a": 1}]]
    for sh in shared:
        for x in extra:
            for y in extra:
                if x != y:
                    jobs.append(('mset', sh + x, sh + y, gt.OPTION_COMBOS[rnd.randrange(9)]))
    res = pmap(_check, jobs, repo_root)
    fails = [f for fs in res for f in fs if f['class'].startswith('c01-')]
    return [{
        'name': 'C01.tree-oracle', 'bound': f"JSON documents <= {4 if tier == 'quick' else 5} nodes over {atoms!r} "
        f"({'all' if exhaustive else 'seeded sample of'} {len(pairs)} pairs, options cycling) + {len(base)}^2 x 9 structured "
        f"pairs + {len(xs)}^2 XML pairs + CSV tables + multisets (duplicates)",
        'evaluations': len(jobs), 'distinct_nontrivial': len({(j[0], D.key(j[1]) if j[0] == 'json' else repr(j[1]), D.key(j[2]) if j[0] == 'json' else repr(j[2])) for j in jobs}),
        'exhaustive': False,
        'rule': 'pair of trees x options -> refine TreeNode.edits to fix-point, walk Edit.edits() recursively, check that '
                'sub-edits cover every child of both containers exactly once (in order for ordered containers); diff() '
                'annotations account for both documents',
        'failures': fails, 'samples': [{'fmt': j[0], 'a': j[1], 'b': j[2], 'opt': j[3]} for j in jobs[100:103]],
    }]
