"""C14 - the command line agrees with the library and honours its option spellings."""
import io
import json
import os
import random

from vlib import docs as D
from vlib import gt
from vlib.par import pmap, timeout_failure

PROPERTY = 'C14'
LEVEL = 'other'
TARGETS = [('cli', '__main__.main'), ('cli', 'graphtage.get_filetype')]
TRUSTED = [
    'argparse delivers the destinations named in the add_argument calls (args is a symbolic Namespace)',
    'the filetype registry iterates in a fixed order; type names are identified with their registry position',
    'mimetypes.guess_type and the MIME registry dict are modelled by uninterpreted functions',
]
ASSUMPTIONS = ['string values are compared through interned ids (distinct literals are distinct)']
EXPLANATION = (
    "Deductive: the def-use slice of __main__.main that computes from_mime, to_mime, allow_key_edits, auto_match_keys "
    "and the BuildOptions object is extracted mechanically (top-level statements assigning those names) and verified "
    "for every argparse Namespace: an explicit MIME type of either file is the one used for that file, otherwise the "
    "first --from-TYPE/--to-TYPE constant; -k == --dict-strategy none, auto, match; -l / -ll map to the list flags. "
    "get_filetype(path, mime) returns the registry entry of an explicit mime regardless of the path. "
    "Bounded stand-in: CLI stdout/exit status vs build_tree -> diff -> formatter.print for a corpus of file pairs and "
    "all alias pairs, and explicit types against misleading file names for both positions.")


def witnesses(func_result, ob, repo_root, tier):
    # replay of the to_mime obligation: YAML text in a .json file with an explicit --to-mime
    out = []
    if ob is not None and func_result['function'] == '__main__.main':
        for f in _explicit_type_cases():
            r = _run_case(f)
            if r:
                out.append(r)
                break
    return out


def replay(entry, repo_root):
    r = entry.get('replay') or {}
    if r.get('kind') == 'case':
        res = _run_case(r['case'])
        return res['what'] if res else None
    if r.get('kind') == 'stdincase':
        res = _run_stdin_case(dict(r['case'], repo=repo_root))
        return res['what'] if res else None
    if r.get('kind') == 'statuscase':
        res = _run_status_case(dict(r['case'], repo=repo_root))
        return res['what'] if res else None
    if r.get('kind') == 'errorcase':
        res = _run_error_case(r['case'])
        return res['what'] if res else None
    if r.get('kind') == 'modecase':
        res = _run_mode_case(r['case'])
        return res['what'] if res else None
    return None


def _lib_render(pa, pb, opt, from_mime=None, to_mime=None, join=False, mode='full', fmt=None, match_if=None, match_unless=None):
    """The library route for what the command documents: trees built with the file types of the two positions, rendered
    with the default formatter of --format if given, otherwise of the FIRST file's type; `mode` is 'full' (diff),
    '-e' (one line per edit of get_all_edits) or '-d' (edit digest: ancestors' context, ' -> ', the edit)."""
    import graphtage
    from graphtage.printer import Printer, Fore
    ff = graphtage.get_filetype(pa, from_mime)
    tf = graphtage.get_filetype(pb, to_mime)
    options = graphtage.BuildOptions(**opt)
    buf = gt._KeepOpen()
    printer = Printer(buf, ansi_color=False, quiet=True, options={'join_lists': join, 'join_dict_items': join})
    options.printer = printer
    with printer:
        a = ff.build_tree(pa, options)
        b = tf.build_tree(pb, options)
        formatter = (graphtage.FILETYPES_BY_TYPENAME[fmt] if fmt is not None else ff).get_default_formatter()
        if match_if is not None or match_unless is not None:
            from graphtage import expressions
            from graphtage.constraints import MatchIf, MatchUnless
            for node in a.dfs():
                if match_if is not None:
                    MatchIf.apply(node, expressions.parse(match_if))
                if match_unless is not None:
                    MatchUnless.apply(node, expressions.parse(match_unless))
        had = False
        if mode == '-e':
            for edit in a.get_all_edits(b):
                printer.write(str(edit))
                printer.newline()
                had = had or edit.has_non_zero_cost()
        elif mode == '-d':
            for ancestors, edit in a.get_all_edit_contexts(b):
                for i, node in enumerate(ancestors):
                    if node.parent is not None:
                        node.parent.print_parent_context(printer, for_child=node)
                    if i == len(ancestors) - 1:
                        with printer.color(Fore.BLUE):
                            printer.write(" -> ")
                        formatter.print(printer, edit)
                printer.newline()
                had = had or edit.has_non_zero_cost()
        else:
            d = a.diff(b)
            formatter.print(printer, d)
            had = any(any(e.has_non_zero_cost() for e in n.edit_list) for n in d.dfs())
    printer.write('\n')
    printer.close()
    return buf.getvalue(), (1 if had else 0)


def _mode_cases():
    """Output modes x --format x file types of the two positions (same type and cross type)."""
    import yaml
    doc_a, doc_b = {"a": [1, 2, "x y"], "b": "d", "c": True}, {"a": [1, 3, "x z"], "b": "e", "c": True}
    texts = {'json': (json.dumps(doc_a), json.dumps(doc_b), '.json'), 'yaml': (yaml.safe_dump(doc_a), yaml.safe_dump(doc_b), '.yml')}
    cases = []
    for ft in ('json', 'yaml'):
        for tt in ('json', 'yaml'):
            for mode in ('full', '-e', '-d'):
                for fmt in (None, 'json', 'yaml'):
                    for how in ('suffix', 'flags'):
                        for same in (False, True):      # documents with and without differences (exit status 1 / 0)
                            cases.append({'kind': 'mode', 'ft': ft, 'tt': tt, 'mode': mode, 'fmt': fmt, 'how': how, 'same': same,
                                          'a': texts[ft][0], 'b': texts[tt][0 if same else 1],
                                          'sa': texts[ft][2] if how == 'suffix' else '.dat', 'sb': texts[tt][2] if how == 'suffix' else '.dat'})
    # --match-if / --match-unless: the expression is applied to every node of the first tree
    doc_c, doc_d = {"k": {"id": 1, "v": "x"}, "l": [{"id": 1}, {"id": 2}]}, {"k": {"id": 2, "v": "x"}, "l": [{"id": 2}, {"id": 3}]}
    for mode in ('full', '-e', '-d'):
        for mi, mu in (("from['id'] == to['id']", None), (None, "from['id'] == to['id']"), ("1 == 1", None), ("1 == 2", None),
                       (None, "1 == 1"), (None, "1 == 2"), (None, "from['k']['id'] != to['k']['id']"),
                       ("from['id'] == to['id']", "1 == 2"), ("1 == 1", "1 == 1")):
            cases.append({'kind': 'mode', 'ft': 'json', 'tt': 'json', 'mode': mode, 'fmt': None, 'how': 'suffix', 'same': False,
                          'a': json.dumps(doc_c), 'b': json.dumps(doc_d), 'sa': '.json', 'sb': '.json', 'mi': mi, 'mu': mu})
    return cases


MIMES = {'json': 'application/json', 'yaml': 'application/x-yaml'}


def _run_error_case(case):
    """Unknown explicit MIME type: 'Error: ...' on stderr, nothing on stdout, non-zero status, no exception."""
    _ensure_mimetypes()
    tf = gt.TempFiles()
    try:
        pa, pb = tf.write('[1]', case.get('sa', '.json')), tf.write('[2]', case.get('sb', '.json'))
        rc, out, err, exc = gt.run_cli([pa, pb, '--no-status', '--no-color'] + case['flags'])
        if exc is not None or rc in (0, None) or 'Error' not in err or out.strip():
            return {'input': case, 'what': f"unknown file type {case['flags']}: rc={rc}, exc={exc!r}, stdout={out[:60]!r}, stderr={err[-100:]!r} "
                                           f"(expected an error message, empty stdout and a non-zero status)",
                    'class': 'c14-unknown-type', 'replay': {'kind': 'errorcase', 'case': case}}
        return None
    finally:
        tf.cleanup()


def _status_docs():
    """Document pairs whose rendering contains multi-line pieces (long strings that YAML folds, embedded newlines)."""
    import yaml
    long1 = ' '.join(['lorem ipsum dolor sit amet consectetur'] * 6)
    long2 = long1.replace('dolor', 'color', 1)
    a = {"name": "pkg", "description": long1, "notes": "line one\nline two\nline three", "v": [1, 2]}
    b = {"name": "pkg", "description": long1, "notes": "line one\nline 2\nline three", "v": [1, 3], "extra": long2}
    # text containing the line separators other than "\n" (the status writer re-assembles the output line by line)
    sep = "one\u2028two\x0cthree\x0bfour\x1cfive\x85six\u2029seven"
    a2, b2 = dict(a, sep=sep, cr="x\ry", crlf="one\r\ntwo\r\nthree"), dict(b, sep=sep, cr="x\rz", crlf="one\r\ntwo\r\n3")
    xa = f'<r id="1"><t>{sep}</t><u>first\nsecond</u><w>dos&#13;\nline&#13;\nend</w><v>{long1}</v></r>'
    xb = f'<r id="2"><t>{sep}</t><u>first\nsecond!</u><w>dos&#13;\nline&#13;\nEND</w><v>{long2}</v></r>'
    ca = f'h1,h2\n"{sep}","two\nlines"\n{long1},1\n'
    cb = f'h1,h2\n"{sep}","two\nlines!"\n{long2},1\n'
    return {'json': (json.dumps(a), json.dumps(b), '.json'), 'yaml': (yaml.safe_dump(a), yaml.safe_dump(b), '.yml'),
            'json-sep': (json.dumps(a2, ensure_ascii=False), json.dumps(b2, ensure_ascii=False), '.json'),
            'yaml-sep': (yaml.safe_dump(a2, allow_unicode=True), yaml.safe_dump(b2, allow_unicode=True), '.yml'),
            'xml-sep': (xa, xb, '.xml'), 'csv-sep': (ca, cb, '.csv')}


def _run_status_case(case):
    """The real command (a subprocess whose stdout is the process's sys.stdout) under the status settings: default (status
    output on), --no-status, --quiet: identical stdout and exit status, equal to the library route."""
    import subprocess
    import sys
    _ensure_mimetypes()
    tf = gt.TempFiles()
    try:
        texts = _status_docs()[case['ft']]
        pa, pb = tf.write(texts[0], texts[2]), tf.write(texts[0] if case['same'] else texts[1], texts[2])
        env = dict(os.environ)
        env['PYTHONPATH'] = case['repo'] + os.pathsep + env.get('PYTHONPATH', '')
        base = [sys.executable, '-m', 'graphtage', pa, pb, '--no-color'] + (['--format', case['fmt']] if case['fmt'] else [])
        outs = {}
        for name, extra in (('default', []), ('--no-status', ['--no-status']), ('--quiet', ['--quiet'])):
            p = subprocess.run(base + extra, env=env, capture_output=True, timeout=100)
            outs[name] = (p.returncode, p.stdout.decode('utf-8', 'replace'))     # (no newline translation: "\r" stays "\r")
        try:
            lib_out, lib_rc = _lib_render(pa, pb, {}, fmt=case['fmt'])
        except Exception as e:
            lib_out, lib_rc = None, None
        desc = {k: case[k] for k in ('ft', 'fmt', 'same')}
        for name in ('--no-status', '--quiet'):
            if outs[name] != outs['default']:
                return {'input': desc, 'what': f"status case {desc}: stdout/exit status of `graphtage` with status output on differs from "
                                               f"{name}: {outs['default'][0]} {outs['default'][1][:200]!r} vs {outs[name][0]} {outs[name][1][:200]!r}",
                        'class': 'c14-status-setting-changes-output', 'replay': {'kind': 'statuscase', 'case': {k: v for k, v in case.items() if k != 'repo'}}}
        if lib_out is not None and (outs['default'][0] != lib_rc or outs['default'][1] != lib_out):
            return {'input': desc, 'what': f"status case {desc}: the command prints {outs['default'][1][:200]!r} (rc {outs['default'][0]}), the "
                                           f"library route {lib_out[:200]!r} (rc {lib_rc})",
                    'class': 'c14-cli-vs-library:subprocess', 'replay': {'kind': 'statuscase', 'case': {k: v for k, v in case.items() if k != 'repo'}}}
        return None
    finally:
        tf.cleanup()


def _run_stdin_case(case):
    """A document given on standard input ('-', with its type stated by --from-/--to-) renders exactly as the same document
    given as a file, for either position (the real command in a subprocess)."""
    import subprocess
    import sys
    tf = gt.TempFiles()
    try:
        texts = _status_docs()[case['ft']]
        ft = case['ft'].split('-')[0]
        da, db = texts[0].encode('utf-8'), (texts[0] if case['same'] else texts[1]).encode('utf-8')
        pa, pb = tf.write(da, texts[2], binary=True), tf.write(db, texts[2], binary=True)
        env = dict(os.environ)
        env['PYTHONPATH'] = case['repo'] + os.pathsep + env.get('PYTHONPATH', '')
        flags = ['--no-color', '--no-status', f'--from-{ft}', f'--to-{ft}'] + (['--format', case['fmt']] if case['fmt'] else [])
        base = [sys.executable, '-m', 'graphtage']
        ref = subprocess.run(base + [pa, pb] + flags, env=env, capture_output=True, timeout=100)
        if case['pos'] == 0:
            got = subprocess.run(base + ['-', pb] + flags, input=da, env=env, capture_output=True, timeout=100)
        else:
            got = subprocess.run(base + [pa, '-'] + flags, input=db, env=env, capture_output=True, timeout=100)
        if (ref.returncode, ref.stdout) != (got.returncode, got.stdout):
            desc = {k: case[k] for k in ('ft', 'fmt', 'same', 'pos')}
            last = [ln for ln in got.stderr.decode('utf-8', 'replace').strip().splitlines() if ln.strip()]
            return {'input': desc, 'what': f"stdin case {desc}: with the {'first' if case['pos'] == 0 else 'second'} document on standard input the command "
                                           f"exits {got.returncode} and prints {got.stdout.decode('utf-8', 'replace')[:160]!r} ({last[-1][:120] if last else 'no stderr'}); "
                                           f"with both as files it exits {ref.returncode} and prints {ref.stdout.decode('utf-8', 'replace')[:160]!r}",
                    'class': 'c14-stdin-differs-from-file', 'replay': {'kind': 'stdincase', 'case': {k: v for k, v in case.items() if k != 'repo'}}}
        return None
    finally:
        tf.cleanup()


def _run_mode_case(case):
    _ensure_mimetypes()
    tf = gt.TempFiles()
    try:
        pa, pb = tf.write(case['a'], case['sa']), tf.write(case['b'], case['sb'])
        argv = [pa, pb, '--no-status', '--no-color']
        fm = tm = None
        if case['how'] == 'flags':
            argv += [f"--from-{case['ft']}", f"--to-{case['tt']}"]
            fm, tm = MIMES[case['ft']], MIMES[case['tt']]
        if case['mode'] != 'full':
            argv.append(case['mode'])
        if case['fmt']:
            argv += ['--format', case['fmt']]
        if case.get('mi'):
            argv += ['--match-if', case['mi']]
        if case.get('mu'):
            argv += ['--match-unless', case['mu']]
        rc, out, err, exc = gt.run_cli(argv)
        try:
            lib_out, lib_rc = _lib_render(pa, pb, {}, fm, tm, mode=case['mode'], fmt=case['fmt'], match_if=case.get('mi'),
                                          match_unless=case.get('mu'))
        except Exception as e:
            lib_out, lib_rc = f"<library raised {type(e).__name__}: {e}>", None
            if exc is not None and type(exc) is type(e):
                return None     # both routes fail alike (rendering defects are C13's business)
        if exc is not None or rc != lib_rc or out != lib_out:
            desc = {k: case.get(k) for k in ('ft', 'tt', 'mode', 'fmt', 'how', 'same', 'mi', 'mu')}
            return {'input': desc, 'what': f"mode case {desc}: CLI (rc={rc}, exc={exc!r}) disagrees with the library route "
                                           f"(rc={lib_rc}); CLI out={out[:90]!r} library out={lib_out[:90]!r}",
                    'class': f"c14-mode:{case['mode']}", 'replay': {'kind': 'modecase', 'case': case}}
        return None
    finally:
        tf.cleanup()


def _ensure_mimetypes():
    import mimetypes
    mimetypes.init()
    if '.yml' not in mimetypes.types_map and '.yaml' not in mimetypes.types_map:
        mimetypes.add_type('application/x-yaml', '.yml')
        mimetypes.suffix_map['.yaml'] = '.yml'
    if '.json5' not in mimetypes.types_map:
        mimetypes.add_type('application/json5', '.json5')


def _explicit_type_cases():
    import yaml
    cases = []
    doc_a, doc_b = {"a": [1, 2], "b": "x"}, {"a": [1, 3], "b": "y"}
    ya, yb = yaml.safe_dump(doc_a), yaml.safe_dump(doc_b)
    ja, jb = json.dumps(doc_a), json.dumps(doc_b)
    # (text of first file, suffix, text of second file, suffix, argv type flags, true mime of first, true mime of second)
    for flag_kind in ('mime', 'type'):
        yflag = (lambda pos: [f'--{pos}-mime', 'application/x-yaml']) if flag_kind == 'mime' else (lambda pos: [f'--{pos}-yaml'])
        jflag = (lambda pos: [f'--{pos}-mime', 'application/json']) if flag_kind == 'mime' else (lambda pos: [f'--{pos}-json'])
        cases.append({'name': f'yaml-in-.json as second file ({flag_kind})', 'a': ja, 'sa': '.json', 'b': yb, 'sb': '.json',
                      'flags': yflag('to'), 'fm': None, 'tm': 'application/x-yaml'})
        cases.append({'name': f'yaml-in-.json as first file ({flag_kind})', 'a': ya, 'sa': '.json', 'b': jb, 'sb': '.json',
                      'flags': yflag('from'), 'fm': 'application/x-yaml', 'tm': None})
        cases.append({'name': f'json-in-.yml both explicit ({flag_kind})', 'a': ja, 'sa': '.yml', 'b': jb, 'sb': '.yml',
                      'flags': jflag('from') + jflag('to'), 'fm': 'application/json', 'tm': 'application/json'})
        cases.append({'name': f'from explicit json must not force the second file ({flag_kind})', 'a': ja, 'sa': '.txt', 'b': yb,
                      'sb': '.yml', 'flags': jflag('from'), 'fm': 'application/json', 'tm': None})
    return cases


def _case_timeout(case, seconds):
    return timeout_failure('C14')({k: v for k, v in case.items() if k not in ('a', 'b')}, seconds)[0]


def _run_case(case):
    _ensure_mimetypes()
    tf = gt.TempFiles()
    try:
        pa, pb = tf.write(case['a'], case['sa']), tf.write(case['b'], case['sb'])
        rc, out, err, exc = gt.run_cli([pa, pb, '--no-status', '--no-color'] + case['flags'])
        try:
            lib_out, lib_rc = _lib_render(pa, pb, {}, case['fm'], case['tm'])
        except Exception as e:
            return {'input': case, 'what': f"library oracle raised {type(e).__name__}: {e}", 'class': 'c14-harness',
                    'replay': {'kind': 'case', 'case': case}}
        if exc is not None or rc != lib_rc or out != lib_out:
            return {'input': {k: case[k] for k in ('name', 'flags', 'sa', 'sb')},
                    'what': f"{case['name']}: CLI (rc={rc}, exc={exc!r}, stderr={err.strip()[-120:]!r}) disagrees with the library "
                            f"using the explicit type (rc={lib_rc}); CLI out={out[:80]!r} library out={lib_out[:80]!r}",
                    'class': 'c14-explicit-type-not-honoured', 'replay': {'kind': 'case', 'case': case}}
        return None
    finally:
        tf.cleanup()


def _alias_job(job):
    a, b, opt = job
    _ensure_mimetypes()
    tf = gt.TempFiles()
    fails = []
    try:
        pa, pb = tf.json(a), tf.json(b)
        base = [pa, pb, '--no-status', '--no-color']
        ref = gt.run_cli(base + gt.cli_flags(opt))
        try:
            lib_out, lib_rc = _lib_render(pa, pb, opt)
        except Exception as e:
            lib_out, lib_rc = f"<library raised {type(e).__name__}: {e}>", None
        if ref[3] is not None or ref[0] != lib_rc or ref[1] != lib_out:
            fails.append({'what': f"CLI rc={ref[0]} exc={ref[3]!r} out={ref[1][:60]!r} vs library rc={lib_rc} out={lib_out[:60]!r} "
                                  f"for {a!r} vs {b!r} opt={opt}", 'class': 'c14-cli-vs-library'})
        pairs = []
        if not opt['allow_key_edits']:
            lf = [f for f in gt.cli_flags(opt) if f not in ('--dict-strategy', 'none')]
            pairs.append(('-k', base + ['-k'] + lf, base + ['--dict-strategy', 'none'] + lf))
        pairs.append(('-j', base + ['-j'] + gt.cli_flags(opt), base + ['-jl', '-jd'] + gt.cli_flags(opt)))
        pairs.append(('--from-json', base + ['--from-json'] + gt.cli_flags(opt),
                      base + ['--from-mime', 'application/json'] + gt.cli_flags(opt)))
        pairs.append(('--to-json', base + ['--to-json'] + gt.cli_flags(opt),
                      base + ['--to-mime', 'application/json'] + gt.cli_flags(opt)))
        for name, x, y in pairs:
            rx, ry = gt.run_cli(x), gt.run_cli(y)
            if rx[3] is not None or ry[3] is not None or rx[0] != ry[0] or rx[1] != ry[1]:
                fails.append({'what': f"spellings of {name} differ: rc {rx[0]} vs {ry[0]}, exc {rx[3]!r} vs {ry[3]!r}, "
                                      f"out {rx[1][:50]!r} vs {ry[1][:50]!r} for {a!r} vs {b!r}", 'class': f'c14-alias:{name}'})
    finally:
        tf.cleanup()
    for f in fails:
        f['input'] = {'a': a, 'b': b, 'opt': opt}
        f['replay'] = {'kind': 'alias', 'a': a, 'b': b, 'opt': opt}
    return fails


def bounded(tier, seed, repo_root):
    atoms = [0, 1, "a", "ab", None, True]
    docs = D.enum_docs(3, atoms=atoms, keys=['a', 'b'])
    rnd = random.Random(seed)
    n = 250 if tier == 'quick' else 2500
    jobs = []
    for i in range(n):
        a, b = rnd.choice(docs), rnd.choice(docs)
        jobs.append((a, b, gt.OPTION_COMBOS[i % 9]))
    res = pmap(_alias_job, jobs, repo_root, job_timeout=120, on_timeout=timeout_failure('C14'))
    fails = [f for fs in res for f in fs]
    cases = _explicit_type_cases()
    for r in pmap(_run_case, cases, repo_root, job_timeout=120, on_timeout=_case_timeout, skip_result=None):
        if r:
            fails.append(r)
    mcases = _mode_cases()
    for r in pmap(_run_mode_case, mcases, repo_root, job_timeout=120, on_timeout=_case_timeout, skip_result=None):
        if r:
            fails.append(r)
    # a file whose type cannot be determined (unknown suffix, no explicit type) in either position
    scases = [{'ft': ft, 'fmt': fmt, 'same': same, 'repo': repo_root} for ft in ('json', 'yaml') for fmt in (None, 'json', 'yaml')
              for same in (False, True)]
    scases += [{'ft': ft, 'fmt': fmt, 'same': same, 'repo': repo_root} for ft in ('json-sep', 'yaml-sep', 'xml-sep', 'csv-sep')
               for fmt in (None, 'yaml') for same in (False, True)]
    for r in pmap(_run_status_case, scases, repo_root, job_timeout=400, on_timeout=_case_timeout, skip_result=None):
        if r:
            fails.append(r)
    icases = [{'ft': ft, 'fmt': fmt, 'same': same, 'pos': pos, 'repo': repo_root} for ft in ('json', 'yaml', 'json-sep', 'yaml-sep', 'xml-sep', 'csv-sep')
              for fmt in (None, 'yaml') for same in (False, True) for pos in (0, 1)]
    for r in pmap(_run_stdin_case, icases, repo_root, job_timeout=400, on_timeout=_case_timeout, skip_result=None):
        if r:
            fails.append(r)
    ecases = [{'flags': [], 'sa': '.gtunknownext', 'sb': '.json'}, {'flags': [], 'sa': '.json', 'sb': '.gtunknownext'},
              {'flags': ['--from-json'], 'sa': '.gtunknownext', 'sb': '.gtunknownext'}]
    for r in pmap(_run_error_case, ecases, repo_root, job_timeout=120, on_timeout=_case_timeout, skip_result=None):
        if r:
            fails.append(r)
    return [{
        'name': 'C14.cli-vs-library', 'bound': f"{n} seeded document pairs (<=3 nodes) x 9 option combinations; alias pairs "
        f"-k/--dict-strategy none, -j/-jl -jd, --from-json/--from-mime, --to-json/--to-mime; {len(cases)} explicit-type cases "
        f"with misleading file names for both positions; {len(mcases)} mode cases: {{full, -e, -d}} x --format {{none, json, yaml}} x "
        f"file types of the two positions {{json, yaml}}^2 x {{by suffix, by --from-/--to- flags}} x {{equal, different}} documents, --match-if / --match-unless "
        f"expressions, files of undeterminable type; {len(scases)} subprocess runs of the real command under status output on / "
        f"--no-status / --quiet on documents with multi-line pieces; {len(icases)} subprocess runs with one document on standard input",
        'evaluations': n * 9 + len(cases) + len(mcases), 'distinct_nontrivial': len({D.key(j[0]) + D.key(j[1]) for j in jobs}) + len(cases),
        'exhaustive': False,
        'rule': 'document pair x options -> CLI stdout/exit status equals library rendering; equivalent spellings give '
                'identical stdout and status; explicit type flags decide the parser for that position',
        'failures': fails, 'samples': [{'a': j[0], 'b': j[1], 'opt': j[2]} for j in jobs[:3]],
    }]
