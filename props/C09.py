"""C09 - the same data compares as equal regardless of input file format."""
import itertools
import json
import plistlib
import random

from vlib import gt
from vlib.par import pmap, timeout_failure

PROPERTY = 'C09'
LEVEL = 'other'
TARGETS = [('formats', t) for t in ('json.JSON.build_tree', 'json.JSON5.build_tree', 'yaml.build_tree', 'yaml.YAML.build_tree',
                                    'plist.build_tree', 'plist.PLIST.build_tree')]
TRUSTED = ['the third-party parsers (json, json5, yaml, plistlib) return equal Python data for the same data (exercised by '
           'the bounded run, not proved)', 'json.build_tree(data, options) is a function of its arguments',
           'mechanical premise checked on every run: no TreeNode __eq__/__hash__/__lt__ reads `quoted`']
ASSUMPTIONS = ['parsed data values are identified by integer ids', 'file contents do not change during a run']
EXPLANATION = (
    "Deductive: each loader (JSON, JSON5, YAML, plist) is verified to return json.build_tree(<its parser>(file), options) "
    "- for YAML the single document, for plist wrapped in a PLISTNode - and the YAML / plist post-processing loops modify "
    "only the `quoted` flag, which node equality is mechanically checked not to read; hence equal parsed data gives equal "
    "trees and (C02) zero cost. The parsers and the PLISTNode wrapper's interaction with every node class are outside the "
    "contracts: bounded stand-in over generated data in the common domain written with each library's own dumper, all 16 "
    "ordered format pairs: equal trees, zero cost both ways, exit 0, equal cost against a third document.")
FORMATS = ['json', 'json5', 'yaml', 'plist']
SUFFIX = {'json': '.json', 'json5': '.json5', 'yaml': '.yml', 'plist': '.plist'}


def dump(fmt, doc):
    import yaml
    if fmt in ('json', 'json5'):
        return json.dumps(doc)
    if fmt == 'yaml':
        return yaml.safe_dump(doc)
    return plistlib.dumps(doc).decode()


def gen_docs(rnd, n):
    vals = ["x", "hello world", 1, 0, 42, True, False, "3"]

    def mk(depth):
        r = rnd.random()
        if depth == 0 or r < 0.35:
            return rnd.choice(vals)
        if r < 0.65:
            return [mk(depth - 1) for _ in range(rnd.randint(1, 3))]
        return {k: mk(depth - 1) for k in rnd.sample(['a', 'b', 'c', 'key'], rnd.randint(1, 3))}
    def mk2(depth):
        r = rnd.random()
        if depth == 0 or r < 0.3:
            return rnd.choice(vals + [2.5, "", 0])
        if r < 0.65:
            return [mk2(depth - 1) for _ in range(rnd.randint(0, 3))]
        return {k: mk2(depth - 1) for k in rnd.sample(['a', 'b', 'c', 'key'], rnd.randint(0, 3))}
    # every falsy / empty value at top level and nested (the formats agree on them), scalars at top level
    docs = [{}, [], 0, False, "", 1, "x", True, 2.5, {"a": {}}, {"a": []}, [[]], [{}], {"a": ""}, [0, False, ""], {"a": 0, "b": False}]
    while len(docs) < n:
        docs.append(mk(3) if rnd.random() < 0.5 else mk2(3))
    return docs


def _job(job):
    doc, third, opt = job
    import graphtage
    fails = []
    tf = gt.TempFiles()
    try:
        paths = {f: tf.write(dump(f, doc), SUFFIX[f]) for f in FORMATS}
        tpath = tf.write(json.dumps(third), '.json')
        options = graphtage.BuildOptions(**opt)
        trees = {}
        for f in FORMATS:
            trees[f] = graphtage.FILETYPES_BY_TYPENAME[f].build_tree(paths[f], options)
        tt = graphtage.FILETYPES_BY_TYPENAME['json'].build_tree(tpath, options)
        third_costs = {}
        for f in FORMATS:
            third_costs[f] = (trees[f].diff(tt).edited_cost(), tt.diff(trees[f]).edited_cost())
        for f, g in itertools.product(FORMATS, repeat=2):
            plist_side = ('source' if f == 'plist' else '') + ('target' if g == 'plist' else '')
            tag = f":plist-{plist_side}" if plist_side and f != g else ''
            c = trees[f].diff(trees[g]).edited_cost()
            if c != 0:
                if tag.endswith('plist-target'):
                    # the listed finding is a WHOLESALE Replace of the document by the plist wrapper: any other non-zero cost
                    # is a different violation
                    try:
                        expected = graphtage.Replace(trees[f], trees[g]).bounds().upper_bound
                    except Exception:
                        expected = None
                    if c != expected:
                        tag = tag + ':not-the-wholesale-replace'
                fails.append({'what': f"same data loaded from {f} and {g} diffs with cost {c} (data {doc!r})",
                              'class': f'c09-nonzero-cost{tag}'})
            if f != g and 'plist' not in (f, g) and (not (trees[f] == trees[g]) or gt.canon(trees[f]) != gt.canon(trees[g])):
                fails.append({'what': f"trees loaded from {f} and {g} are not equal (data {doc!r})", 'class': 'c09-trees-differ'})
            rc, out, err, exc = gt.run_cli([paths[f], paths[g], '--no-status', '--no-color'] + gt.cli_flags(opt))
            if exc is not None or rc != 0:
                fails.append({'what': f"CLI on {f} vs {g} of the same data: exit {rc}, exception {exc!r} (data {doc!r})",
                              'class': f'c09-cli-nonzero{tag}'})
        # the format's tree as SOURCE of the comparison with the third document
        if len({v[0] for v in third_costs.values()}) > 1:
            fails.append({'what': f"cost of <format tree>.diff(third document) depends on the format: "
                                  f"{ {k: v[0] for k, v in third_costs.items()} } (data {doc!r} vs {third!r})",
                          'class': 'c09-third-doc-cost:as-source'})
        # ... and as TARGET (a plist target is the listed finding plist-target: wholesale Replace)
        if len({v[1] for v in third_costs.values()}) > 1:
            pl = third_costs['plist'][1] != third_costs['json'][1] and len({third_costs[k][1] for k in ('json', 'json5', 'yaml')}) == 1
            fails.append({'what': f"cost of third document.diff(<format tree>) depends on the format: "
                                  f"{ {k: v[1] for k, v in third_costs.items()} } (data {doc!r} vs {third!r})",
                          'class': 'c09-third-doc-cost' + (':plist' if pl else '')})
    except Exception as ex:
        fails.append({'what': f"{type(ex).__name__}: {ex} (data {doc!r})", 'class': f'c09-exception:{type(ex).__name__}'})
    finally:
        tf.cleanup()
    for f in fails:
        f['what'] += f" opt={opt}"
        f['input'] = {'doc': doc, 'third': third, 'opt': opt}
        f['replay'] = {'kind': 'doc', 'doc': doc, 'third': third, 'opt': opt}
    return fails


def _cross_job(job):
    """Cost of doc -> third for every ordered pair of formats the two sides can be loaded from: one value.  (A plist
    target compared with a non-plist source is the listed wholesale-Replace finding, identified by its predicted cost.)"""
    doc, third, opt = job
    import graphtage
    fails = []
    tf = gt.TempFiles()
    try:
        options = graphtage.BuildOptions(**opt)
        load = lambda f, d: graphtage.FILETYPES_BY_TYPENAME[f].build_tree(tf.write(dump(f, d), SUFFIX[f]), options)
        costs = {}
        for f, g in itertools.product(FORMATS, repeat=2):
            a, b = load(f, doc), load(g, third)      # fresh trees for every comparison
            try:
                c = a.diff(b).edited_cost()
            except Exception as ex:
                c = f"{type(ex).__name__}: {str(ex)[:80]}"
            if g == 'plist' and f != 'plist':
                try:
                    if c == graphtage.Replace(a, b).bounds().upper_bound:
                        c = 'wholesale-replace'
                except Exception:
                    pass
            costs[(f, g)] = c
        ref = costs[('json', 'json')]
        odd = {f"{f}->{g}": c for (f, g), c in costs.items() if c != ref and c != 'wholesale-replace'}
        whole = [f"{f}->{g}" for (f, g), c in costs.items() if c == 'wholesale-replace' and c != ref]
        if odd:
            fails.append({'what': f"cost of {doc!r} -> {third!r} depends on the formats the two sides were loaded from: json->json {ref}, but {odd}",
                          'class': 'c09-cross-format-cost'})
        if whole:
            fails.append({'what': f"cost of {doc!r} -> {third!r}: json->json {ref}, but a wholesale Replace for {whole}", 'class': 'c09-third-doc-cost:plist'})
    except Exception as ex:
        fails.append({'what': f"{type(ex).__name__}: {ex} (data {doc!r} vs {third!r})", 'class': f'c09-exception:{type(ex).__name__}'})
    finally:
        tf.cleanup()
    for f in fails:
        f['what'] += f" opt={opt}"
        f['input'] = {'doc': doc, 'third': third, 'opt': opt}
        f['replay'] = {'kind': 'cross', 'doc': doc, 'third': third, 'opt': opt}
    return fails


def witnesses(func_result, ob, repo_root, tier):
    rnd = random.Random(1)
    for d in gen_docs(rnd, 24):
        f = [x for x in _job((d, [1], gt.OPTION_COMBOS[0])) if 'plist' not in x['class']]
        if f:
            return f[:1]
    return []


def replay(entry, repo_root):
    r = entry.get('replay') or {}
    if r.get('kind') == 'cross':
        f = _cross_job((r['doc'], r['third'], r['opt']))
        return f[0]['what'] if f else None
    if r.get('kind') == 'doc':
        f = _job((r['doc'], r['third'], r['opt']))
        return f[0]['what'] if f else None
    return None


def bounded(tier, seed, repo_root):
    rnd = random.Random(seed)
    docs = gen_docs(rnd, 60 if tier == 'quick' else 600)
    jobs = [(d, rnd.choice(docs), gt.OPTION_COMBOS[i % 9]) for i, d in enumerate(docs)]
    fails = [f for fs in pmap(_job, jobs, repo_root, chunksize=1, job_timeout=120, on_timeout=timeout_failure('C09')) for f in fs]
    special = docs[:16]
    cj = [(a, b, gt.OPTION_COMBOS[(i + j) % 9]) for i, a in enumerate(special) for j, b in enumerate(special) if i != j]
    cj += [(d, rnd.choice(docs), gt.OPTION_COMBOS[i % 9]) for i, d in enumerate(docs[16:])]
    fails += [f for fs in pmap(_cross_job, cj, repo_root, chunksize=2, job_timeout=120, on_timeout=timeout_failure('C09')) for f in fs]
    return [{
        'name': 'C09.formats', 'bound': f"{len(docs)} documents in the common domain (string keys; string/int/float/bool values; lists and mappings incl. "
        f"empty ones, falsy scalars and scalars at top level, depth <= 3) x 16 ordered pairs of json/json5/yaml/plist, options cycling through the 9; {len(cj)} (document, third document) pairs - all ordered pairs of the 16 empty / falsy / scalar roots and seeded ones - with both sides loaded from every format (16 combinations each)",
        'evaluations': len(jobs) * 16 + len(cj) * 16, 'distinct_nontrivial': len({json.dumps(d, sort_keys=True) for d in docs}), 'exhaustive': False,
        'rule': 'document written with each library dumper -> Filetype.build_tree for each format: equal trees, diff cost 0 in both '
                'directions, CLI exit 0, equal cost against a third document',
        'failures': fails, 'samples': docs[:3],
    }]
