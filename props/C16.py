"""C16 - the priority queue always yields a minimum."""
import itertools
import random

from vlib.par import pmap, with_timeout, JobTimeout

PROPERTY = 'C16'
LEVEL = 'other'
TARGETS = [('heap', t) for t in (
    'fibonacci.HeapNode.__lt__', 'fibonacci.HeapNode.__le__', 'fibonacci.ReversedComparator.__lt__',
    'fibonacci.ReversedComparator.__le__', 'fibonacci.FibonacciHeap.__len__', 'fibonacci.FibonacciHeap.__bool__',
    'fibonacci.FibonacciHeap.clear', 'fibonacci.FibonacciHeap.push', 'fibonacci.FibonacciHeap.decrease_key')] + [
    ('heap_links', t) for t in (
        'fibonacci.FibonacciHeap._append_root', 'fibonacci.FibonacciHeap._remove_root', 'fibonacci.HeapNode.add_child',
        'fibonacci.HeapNode.remove_child', 'fibonacci.FibonacciHeap._link', 'fibonacci.FibonacciHeap._cut',
        'fibonacci.FibonacciHeap._extract_min')]
TRUSTED = ['_cut / _cascading_cut as used by decrease_key: frame-only contracts (_cut itself is verified in heap_links)',
           'HeapNode.children yields exactly the nodes whose parent pointer is that node (forest invariant, checked by the bounded run)',
           '_consolidate: frame only (size, keys, deleted flags untouched)',
           'the user-supplied key function is pure', 'items and keys are modelled as integers']
ASSUMPTIONS = []
EXPLANATION = (
    "Deductive (local lemmas only): the pointer surgery one step at a time - _append_root / _remove_root splice the root "
    "ring, add_child / remove_child the child ring, _link and _cut move a node between them resetting parent and mark, with "
    "verified frames; _extract_min detaches every child of the removed root (no node keeps a parent pointer to it, given the "
    "forest invariant) and decrements the size exactly when a node is removed; HeapNode.__lt__/__le__ restricted to live nodes is the key order; ReversedComparator "
    "reverses it; __len__/__bool__ read _n; clear resets; push increments _n, splices the node into the root ring next "
    "to the root and keeps _min minimal w.r.t. the new node; decrease_key rejects increases with ValueError, keeps _n and "
    "leaves _min at x or where it was with _min not greater than x. The global heap-order / ring invariant of the "
    "pointer-linked forest (pop, _consolidate, remove) is beyond the VC generator (no inductive heap predicates): it is "
    "decided by a bounded stand-in - lock-step with a model keyed by node identity plus a representation check after "
    "every operation, exhaustively over all operation sequences with keys in {0,1,2} up to a length bound and seeded "
    "long sequences with duplicates, for the min-heap and the max-heap.")
OPS_TIMEOUT = 5


def witnesses(func_result, ob, repo_root, tier):
    return []


def _rep_check(h, live):
    """Rings closed, parent/child/degree consistent, heap order among live nodes, _n == live count."""
    seen = set()
    if h._root is None:
        return None if not live else "root is None but live nodes exist"

    def ring(start):
        out, n, k = [], start, 0
        while True:
            out.append(n)
            if n.right.left is not n or n.left.right is not n:
                return None
            n = n.right
            k += 1
            if n is start:
                return out
            if k > 10000:
                return None
    roots = ring(h._root)
    if roots is None:
        return "root ring is not a closed doubly linked ring"
    stack = [(r, None) for r in roots]
    while stack:
        n, par = stack.pop()
        if id(n) in seen:
            return "node reachable twice"
        seen.add(id(n))
        if n.parent is not par:
            return f"parent pointer of {n!r} is inconsistent"
        if n.child is not None:
            kids = ring(n.child)
            if kids is None:
                return "child ring not closed"
            if len(kids) != n.degree:
                return f"degree {n.degree} but {len(kids)} children"
            for c in kids:
                if not c.deleted and not n.deleted and c.key < n.key:
                    return f"heap order violated: child {c!r} < parent {n!r}"
                stack.append((c, n))
        elif n.degree != 0:
            return "degree non-zero without children"
    return None


def _run(job):
    try:
        return with_timeout(_run_inner, job, OPS_TIMEOUT)
    except JobTimeout:
        kind, ops = job
        return [{'what': f"{kind}-heap: operation sequence {ops!r} did not finish within {OPS_TIMEOUT}s", 'class': 'c16-hang',
                 'input': {'kind': kind, 'ops': ops}, 'replay': {'kind': 'ops', 'heap': kind, 'ops': ops}}]


def _run_inner(job):
    kind, ops = job
    from graphtage.fibonacci import FibonacciHeap, MaxFibonacciHeap
    h = FibonacciHeap() if kind == 'min' else MaxFibonacciHeap()
    sign = 1 if kind == 'min' else -1
    live = []           # list of [node, key] by identity
    fails = []

    def fail(k, what):
        fails.append({'what': f"{kind}-heap after {ops!r}: {what}", 'class': f'c16-{k}',
                      'input': {'kind': kind, 'ops': ops}, 'replay': {'kind': 'ops', 'heap': kind, 'ops': ops}})
    try:
        for step, op in enumerate(ops):
            name = op[0]
            if name == 'push':
                node = h.push(op[1])
                live.append([node, op[1]])
            elif name == 'pop':
                if not live:
                    continue
                best = min(sign * k for _, k in live)
                mn = h.min_node
                item = h.pop()
                if sign * item != best:
                    fail('pop-not-minimum', f"step {step}: pop returned {item}, smallest live key is {sign * best}")
                    return fails
                # remove the popped node (identity) from the model
                idx = next((i for i, (n, k) in enumerate(live) if n is mn), None)
                if idx is None or live[idx][1] != item:
                    idx = next(i for i, (n, k) in enumerate(live) if k == item)
                live.pop(idx)
            elif name == 'peek':
                if not live:
                    continue
                best = min(sign * k for _, k in live)
                item = h.peek()
                if sign * item != best:
                    fail('peek-not-minimum', f"step {step}: peek returned {item}, smallest live key is {sign * best}")
                    return fails
            elif name == 'dec':
                if not live or kind == 'max':
                    continue
                ent = live[op[1] % len(live)]
                newk = ent[1] - op[2]
                h.decrease_key(ent[0], newk)
                ent[0].item = newk
                ent[1] = newk
            elif name == 'rem':
                if not live:
                    continue
                ent = live.pop(op[1] % len(live))
                h.remove(ent[0])
            if len(h) != len(live) or bool(h) != bool(live):
                fail('size', f"step {step}: len(heap)={len(h)}, live items={len(live)}")
                return fails
            msg = _rep_check(h, live)
            if msg:
                fail('representation', f"step {step}: {msg}")
                return fails
    except Exception as ex:
        fail('exception:' + type(ex).__name__, f"{type(ex).__name__}: {ex}")
    return fails


def replay(entry, repo_root):
    r = entry.get('replay') or {}
    if r.get('kind') == 'thin':
        f = _thin_job(tuple(r['job']))
        return f[0]['what'] if f else None
    if r.get('kind') == 'keyed':
        f = _keyed_job(tuple(r['job']))
        return f[0]['what'] if f else None
    if r.get('kind') == 'ops':
        f = _run((r['heap'], [tuple(o) for o in r['ops']]))
        return f[0]['what'] if f else None
    return None


def _alphabet(keys):
    return [('push', k) for k in keys] + [('pop',), ('peek',), ('dec', 0, 1), ('dec', 1, 2), ('rem', 0), ('rem', 1)]


def _helpers_timeout(job, seconds):
    return [{'what': f"smallest/largest/merge on {job!r} did not finish within {seconds}s", 'class': 'c16-hang', 'input': {'job': list(job)},
             'replay': None}]


def _helpers_job(job):
    from collections import Counter
    from graphtage.utils import smallest, largest
    from graphtage.fibonacci import FibonacciHeap
    items, n = job
    fails = []

    def fail(kind, what):
        fails.append({'what': f"{what} [items={items!r}, n={n}]", 'class': f'c16-{kind}', 'input': {'items': items, 'n': n}, 'replay': None})
    try:
        for name, fn, rev in (('smallest', smallest, False), ('largest', largest, True)):
            for arg in ('list', 'varargs'):
                if arg == 'varargs' and len(items) < 2:
                    continue
                got = list(fn(list(items), n=n)) if arg == 'list' else list(fn(*items, n=n))
                exp = sorted(items, reverse=rev)[:n]
                if Counter(got) != Counter(exp):
                    fail(f'{name}-wrong', f"{name}({'*' if arg == 'varargs' else ''}items, n={n}) yielded {got!r}, the {n} {name} are {exp!r}")
        # merging two heaps keeps every item and the order
        k = len(items) // 2
        h1, h2 = FibonacciHeap(), FibonacciHeap()
        for x in items[:k]:
            h1.push(x)
        for x in items[k:]:
            h2.push(x)
        m = h1 + h2
        out = []
        guard = 0
        while m:
            out.append(m.pop())
            guard += 1
            if guard > 100:
                break
        if out != sorted(items):
            fail('merge-wrong', f"popping the merge of two heaps yields {out!r}, expected {sorted(items)!r}")
    except Exception as ex:
        fail('helpers-exception:' + type(ex).__name__, f"{type(ex).__name__}: {ex}")
    return fails


KEYFUNCS = {
    'second': lambda it: it[1],                       # items are (label, number): keys 0, 0.0, False occur
    'text': lambda it: it[0],                         # keys "", "a", ...
    'tuple': lambda it: tuple(range(it[1])),          # keys (), (0,), (0, 1) ...
    'neg': lambda it: -it[1],
    'const0': lambda it: 0,
}


def _keyed_job(job):
    """Heaps, smallest() and largest() with a key function, including keys that are falsy (0, 0.0, "", (), False): items
    come out in the order of their keys; the key stored in a node is the key function's value."""
    from graphtage.fibonacci import FibonacciHeap, MaxFibonacciHeap
    from graphtage.utils import smallest, largest
    kname, items, n = job
    items = [tuple(i) for i in items]
    key = KEYFUNCS[kname]
    fails = []

    def fail(kind, what):
        fails.append({'what': f"{what} [key function {kname!r}, items={items!r}, n={n}]", 'class': f'c16-{kind}',
                      'input': {'key': kname, 'items': items, 'n': n}, 'replay': {'kind': 'keyed', 'job': [kname, [list(i) for i in items], n]}})
    try:
        for cls, rev, nm in ((FibonacciHeap, False, 'min'), (MaxFibonacciHeap, True, 'max')):
            h = cls(key=key)
            nodes = [h.push(it) for it in items]
            if not rev:
                for nd, it in zip(nodes, items):
                    if nd.key != key(it) or type(nd.key) is not type(key(it)):
                        fail('node-key-wrong', f"push({it!r}) on a heap with a key function stored key {nd.key!r}, the key function gives {key(it)!r}")
                        return fails
            out = []
            while h and len(out) <= len(items):
                out.append(h.pop())
            keys = [key(o) for o in out]
            if sorted(map(repr, out)) != sorted(map(repr, items)) or keys != sorted(keys, reverse=rev):
                fail(f'keyed-pop-order', f"popping a {nm}-heap yields keys {keys!r} (items {out!r}), expected keys {sorted(map(key, items), reverse=rev)!r}")
                return fails
        if len(items) > n:
            for nm, fn, rev in (('smallest', smallest, False), ('largest', largest, True)):
                got = list(fn(list(items), n=n, key=key))
                exp = sorted(map(key, items), reverse=rev)[:n]
                if sorted(map(key, got), reverse=rev) != exp or any(g not in items for g in got):
                    fail(f'{nm}-wrong', f"{nm}(items, n={n}, key=...) yielded {got!r} (keys {[key(g) for g in got]!r}), the {n} {nm} keys are {exp!r}")
    except Exception as ex:
        fail('keyed-exception:' + type(ex).__name__, f"{type(ex).__name__}: {ex}")
    return fails


def _thin_job(job):
    """A heap made SMALL while one of its trees stays WIDE: push 2**D + 1 keys and pop once (one binomial tree of 2**D nodes),
    then remove, through the public remove(), every node except the root's children and, below them, everything but each node's
    widest child - a root of degree D over far fewer than 2**D items - then drain.  Size, peek, pop and the representation are
    compared with a list model after every step.  (Shape taken from the report of the round-7 seed for C16.)"""
    from graphtage.fibonacci import FibonacciHeap, MaxFibonacciHeap
    kind, D, variant = job
    sign = 1 if kind == 'min' else -1
    h = FibonacciHeap() if kind == 'min' else MaxFibonacciHeap()
    live = []
    fails = []
    step = 0

    def fail(k, what):
        fails.append({'what': f"{kind}-heap, thin tree D={D} variant {variant}, step {step}: {what}", 'class': f'c16-{k}',
                      'input': {'kind': kind, 'D': D, 'variant': variant}, 'replay': {'kind': 'thin', 'job': list(job)}})

    def check(what):
        if len(h) != len(live) or bool(h) != bool(live):
            fail('size', f"after {what}: len(heap)={len(h)}, live items={len(live)}")
            return False
        if live and sign * h.peek() != min(sign * k for _, k in live):
            fail('peek-not-minimum', f"after {what}: peek returned {h.peek()}, smallest live key is {sign * min(sign * k for _, k in live)}")
            return False
        msg = _rep_check(h, live)
        if msg:
            fail('representation', f"after {what}: {msg}")
            return False
        return True
    try:
        for i in range(2 ** D + 1):
            k = sign * (i // 2)         # duplicate keys on purpose
            live.append([h.push(k), k])
        step += 1
        mn = h.min_node
        item = h.pop()
        idx = next(i for i, (n, _) in enumerate(live) if n is mn)
        live.pop(idx)
        if not check('first pop'):
            return fails
        keep = set()

        def visit(node, is_root):
            keep.add(id(node))
            kids = list(node.children)
            if not is_root and kids:
                drop = max(kids, key=lambda c: c.degree) if variant == 0 else min(kids, key=lambda c: c.degree)
                kids = [c for c in kids if c is not drop]
            for c in kids:
                visit(c, False)
        for r in [n for n, _ in live if n.parent is None]:
            visit(r, True)
        victims = [ent for ent in live if id(ent[0]) not in keep]
        if variant == 2:
            victims.reverse()
        for ent in victims:
            step += 1
            live.remove(ent)
            h.remove(ent[0])
            if not check(f"remove of key {ent[1]}"):
                return fails
        while live:
            step += 1
            best = min(sign * k for _, k in live)
            mn = h.min_node
            item = h.pop()
            if sign * item != best:
                fail('pop-not-minimum', f"pop returned {item}, smallest live key is {sign * best}")
                return fails
            idx = next((i for i, (n, k) in enumerate(live) if n is mn), None)
            if idx is None or live[idx][1] != item:
                idx = next(i for i, (n, k) in enumerate(live) if k == item)
            live.pop(idx)
            if not check('drain pop'):
                return fails
    except Exception as ex:
        fail('exception:' + type(ex).__name__, f"{type(ex).__name__}: {ex}")
    return fails


def bounded(tier, seed, repo_root):
    L = 5 if tier == 'quick' else 6
    alpha = _alphabet([0, 1, 2])
    jobs = []
    for n in range(1, L + 1):
        for seq in itertools.product(alpha, repeat=n):
            jobs.append(('min', list(seq)))
    alpha_max = [a for a in alpha if a[0] != 'dec']
    for n in range(1, L + 1):
        for seq in itertools.product(alpha_max, repeat=n):
            jobs.append(('max', list(seq)))
    exhaustive_n = len(jobs)
    rnd = random.Random(seed)
    big = _alphabet([0, 1, 2, 3, 5, 5, 7])
    for _ in range(2000 if tier == 'quick' else 20000):
        kind = rnd.choice(['min', 'max'])
        al = big if kind == 'min' else [a for a in big if a[0] != 'dec']
        seq = []
        for _ in range(rnd.randint(20, 200)):
            op = rnd.choice(al)
            if op[0] in ('dec', 'rem'):
                op = (op[0], rnd.randrange(50)) + tuple(op[2:]) if op[0] == 'rem' else ('dec', rnd.randrange(50), rnd.randint(0, 3))
            seq.append(op)
        jobs.append((kind, seq))
    res = pmap(_run, jobs, repo_root, chunksize=2000)
    fails = [f for fs in res for f in fs]
    # the helpers built on the two heaps (graphtage.utils.smallest / largest) and heap merging
    hj = []
    for _ in range(600 if tier == 'quick' else 6000):
        n_items = rnd.randint(0, 12)
        hj.append(([rnd.choice([0, 1, 2, 3, 5, 5, 7, -1]) for _ in range(n_items)], rnd.randint(1, 6)))
    fails += [f for fs in pmap(_helpers_job, hj, repo_root, chunksize=100, job_timeout=20, on_timeout=_helpers_timeout) for f in fs]
    kj = []
    labels = ['', 'a', 'b', 'ab']
    for _ in range(800 if tier == 'quick' else 8000):
        its = [(rnd.choice(labels), rnd.choice([0, 0, 1, 2, 3, 0.0, False, True, 2.5])) for _ in range(rnd.randint(1, 9))]
        kn = rnd.choice(sorted(KEYFUNCS))
        if kn == 'tuple':
            its = [(a, int(b)) for a, b in its]
        kj.append((kn, its, rnd.randint(1, 4)))
    fails += [f for fs in pmap(_keyed_job, kj, repo_root, chunksize=100, job_timeout=20, on_timeout=_helpers_timeout) for f in fs]
    tj = [(kind, D, v) for kind in ('min', 'max') for D in range(2, 9 if tier == 'quick' else 11) for v in (0, 1, 2)]
    fails += [f for fs in pmap(_thin_job, tj, repo_root, chunksize=1, job_timeout=120, on_timeout=_helpers_timeout) for f in fs]
    return [{
        'name': 'C16.lock-step', 'bound': f"all operation sequences over push(0|1|2)/pop/peek/decrease_key/remove up to length {L} "
        f"for the min-heap and (without decrease_key) the max-heap ({exhaustive_n} sequences, exhaustive) + "
        f"{len(jobs) - exhaustive_n} seeded sequences of length 20..200 with duplicate keys; {OPS_TIMEOUT}s per sequence; "
        f"{len(hj)} smallest/largest/merge jobs; {len(kj)} heaps / smallest / largest with key functions whose keys include 0, 0.0, False, '' and (); {len(tj)} thin-tree scenarios (a tree of 2**D nodes, D <= {8 if tier == 'quick' else 10}, thinned through remove() to a wide root over few items, then drained)",
        'evaluations': len(jobs) + len(hj) + len(kj) + len(tj), 'distinct_nontrivial': len(jobs), 'exhaustive': True,
        'rule': 'operation sequence -> after every operation: reported size == live items, peek/pop return a smallest live '
                'key (model keyed by node identity), rings closed, parent/child/degree consistent, heap order',
        'failures': fails, 'samples': [{'heap': j[0], 'ops': j[1]} for j in jobs[5000:5003]],
    }]
