"""C02 - no edits are reported exactly when the two documents are equal."""
import itertools
import os
import sys

from vlib import docs as D
from vlib import gt
from vlib.par import pmap, timeout_failure

PROPERTY = 'C02'
LEVEL = 'other'
TARGETS = [
    ('equality', 'graphtage.KeyValuePairNode.__eq__'), ('equality', 'sequences.SequenceNode.__eq__'),
    ('equality', 'graphtage.LeafNode.__eq__'), ('equality', 'xml.XMLElement.edits'),
    ('levenshtein_distance', 'levenshtein.levenshtein_distance'),
    ('nodes', 'graphtage.LeafNode.edits'), ('nodes', 'graphtage.StringNode.edits'), ('nodes', 'graphtage.NullNode.edits'), ('nodes', 'graphtage.ListNode.edits'),
    ('nodes', 'graphtage.KeyValuePairEdit.__init__'), ('core', 'edits.Replace.__init__'), ('core', 'edits.Match.__init__'),
    ('bounded', 'tree.Edit.has_non_zero_cost'),
]
TRUSTED = [
    'structural induction over the tree (paper step): total cost 0 iff every leaf-level edit costs 0',
]
ASSUMPTIONS = [
    'str indexing yields a character compared by code point (strings are modelled as integer sequences)',
]
EXPLANATION = (
    "levenshtein_distance(s,t)==0 <=> s==t is discharged deductively for all strings from the real source "
    "(loop invariants over the DP matrix); LeafNode.edits costs 0 iff the payload texts are equal, NullNode.edits 0 iff "
    "both are null, ListNode.edits is a zero-cost Match iff the child sequences are element-wise equal, Replace costs "
    "at least 1, equal key/value components of a KeyValuePairEdit cost 0, and Edit.has_non_zero_cost (which drives the "
    "exit status) returns final cost > 0. The remaining node classes and the CLI exit status are decided "
    "by a bounded stand-in: all document pairs in a small scope x 9 option combinations through TreeNode.diff and "
    "through graphtage.__main__.main; oracle: equality as data (same kind at every position).")


# ---------------------------------------------------------------------------------------------- witnesses (replay)
def _lev_fail(s, t):
    from graphtage.levenshtein import levenshtein_distance
    r = levenshtein_distance(s, t)
    if (r == 0) != (s == t):
        return f"levenshtein_distance({s!r}, {t!r}) == {r} but the strings are {'equal' if s == t else 'different'}"
    if r < abs(len(s) - len(t)):
        return f"levenshtein_distance({s!r}, {t!r}) == {r} < |len(s)-len(t)|"
    return None


def witnesses(func_result, ob, repo_root, tier):
    if func_result['function'] != 'levenshtein.levenshtein_distance':
        return []
    out = []
    strings = [''.join(p) for n in range(0, 4) for p in itertools.product('ab', repeat=n)]
    cands = []
    m = (ob or {}).get('model') or {}
    try:
        ls, lt = int(m.get('s#n', -1)), int(m.get('t#n', -1))
        if 0 <= ls <= 8 and 0 <= lt <= 8:
            cands.append(('a' * ls, 'a' * lt))
            cands.append(('ab' * ls, 'ba' * lt))
    except ValueError:
        pass
    cands += [(s, t) for s in strings for t in strings]
    for s, t in cands:
        try:
            msg = _lev_fail(s, t)
        except Exception as e:
            msg = f"levenshtein_distance({s!r}, {t!r}) raised {type(e).__name__}: {e}"
        if msg:
            out.append({'input': {'s': s, 't': t}, 'what': msg, 'class': 'levenshtein-distance-wrong',
                        'replay': {'kind': 'lev', 's': s, 't': t}})
            if len(out) >= 3:
                break
    return out


def replay(entry, repo_root):
    r = entry.get('replay') or {}
    if r.get('kind') == 'lev':
        return _lev_fail(r['s'], r['t'])
    if r.get('kind') == 'pair':
        res = _check_pair((r['a'], r['b'], r['opt'], r.get('cli', False)))
        return res[1][0]['what'] if res[1] else None
    return None


# ---------------------------------------------------------------------------------------------- bounded stand-in
def _blind_equal(a, b, relax):
    """Equality modulo the listed blind spots of the cost model (used only to CLASSIFY failures)."""
    if isinstance(a, list) and isinstance(b, list):
        if 'zero-size-leaf' in relax:
            def strip(x):
                if all(not isinstance(e, (list, dict)) for e in x):
                    return [e for e in x if not (e is None or e == '' and isinstance(e, str))]
                return x
            a2, b2 = strip(a), strip(b)
        else:
            a2, b2 = a, b
        return len(a2) == len(b2) and all(_blind_equal(x, y, relax) for x, y in zip(a2, b2))
    if isinstance(a, dict) and isinstance(b, dict):
        return a.keys() == b.keys() and all(_blind_equal(a[k], b[k], relax) for k in a)
    if isinstance(a, (list, dict)) or isinstance(b, (list, dict)):
        return False
    if type(a) is type(b):
        return a == b
    if 'leaf-same-text' in relax and str(a) == str(b):
        return True
    if 'payload-eq' in relax and a == b:
        return True
    return False


def _classify_zero(a, b):
    names = ['leaf-same-text', 'payload-eq', 'zero-size-leaf']
    for k in range(1, 4):
        for sub in itertools.combinations(names, k):
            if _blind_equal(a, b, set(sub)):
                return '+'.join('c02-zero-cost:' + s for s in sub)
    return 'c02-zero-cost:unexplained'


def _pair_timeout(job, seconds):
    return D.data_equal(job[0], job[1]), timeout_failure('C02')(job, seconds)


def _check_pair(job):
    a, b, opt, cli = job
    fails = []
    eq = D.data_equal(a, b)
    try:
        ta, tb = gt.build(a, opt), gt.build(b, opt)
        d = ta.diff(tb)
        cost = d.edited_cost()
        marked = any(any(e.has_non_zero_cost() for e in n.edit_list) for n in d.dfs())
    except Exception as e:
        return (eq, [{'input': {'a': a, 'b': b, 'opt': opt}, 'what': f"diff raised {type(e).__name__}: {e}",
                      'class': 'c02-exception:' + type(e).__name__,
                      'replay': {'kind': 'pair', 'a': a, 'b': b, 'opt': opt}}])
    if eq and (cost != 0 or marked):
        fails.append({'input': {'a': a, 'b': b, 'opt': opt},
                      'what': f"equal documents {a!r} have cost {cost} (marked={marked})",
                      'class': 'c02-equal-but-positive-cost', 'replay': {'kind': 'pair', 'a': a, 'b': b, 'opt': opt}})
    if not eq and (cost == 0 or not marked):
        fails.append({'input': {'a': a, 'b': b, 'opt': opt},
                      'what': f"different documents {a!r} vs {b!r} have cost {cost} (marked={marked})",
                      'class': _classify_zero(a, b), 'replay': {'kind': 'pair', 'a': a, 'b': b, 'opt': opt}})
    if cli:
        tf = gt.TempFiles()
        try:
            pa, pb = tf.json(a), tf.json(b)
            rc, out, err, exc = gt.run_cli([pa, pb, '--no-status'] + gt.cli_flags(opt))
        finally:
            tf.cleanup()
        if exc is not None:
            fails.append({'input': {'a': a, 'b': b, 'opt': opt}, 'what': f"CLI raised {type(exc).__name__}: {exc}",
                          'class': 'c02-cli-exception:' + type(exc).__name__,
                          'replay': {'kind': 'pair', 'a': a, 'b': b, 'opt': opt, 'cli': True}})
        elif (rc == 0) != (cost == 0) or rc not in (0, 1):
            fails.append({'input': {'a': a, 'b': b, 'opt': opt},
                          'what': f"CLI exit status {rc} but library cost {cost} for {a!r} vs {b!r}",
                          'class': 'c02-cli-exit-disagrees', 'replay': {'kind': 'pair', 'a': a, 'b': b, 'opt': opt, 'cli': True}})
    return (eq, fails)


def bounded(tier, seed, repo_root):
    atoms = [0, 1, "", "a", "1", None, True]
    docs = D.enum_docs(3 if tier == 'quick' else 4, atoms=atoms, keys=['a', 'b'])
    budget = 150000 if tier == 'quick' else 1500000
    pairs, exhaustive = D.sample_pairs(docs, budget, seed)
    jobs = []
    for i, (a, b) in enumerate(pairs):
        opt = gt.OPTION_COMBOS[i % 9] if not exhaustive or len(pairs) * 9 > budget * 3 else None
        if opt is None:
            for o in gt.OPTION_COMBOS:
                jobs.append((a, b, o, False))
        else:
            jobs.append((a, b, opt, False))
    for a, b in D.hash_collision_pairs():      # distinct values with equal Python hashes (-1 / -2, n / n + 2**61 - 1)
        for o in gt.OPTION_COMBOS[::2]:
            jobs.append((a, b, o, True))
    # CLI entry point on a sub-sample
    import random
    rnd = random.Random(seed)
    cli_n = 600 if tier == 'quick' else 5000
    for _ in range(cli_n):
        a, b = rnd.choice(pairs)
        jobs.append((a, b, rnd.choice(gt.OPTION_COMBOS), True))
    res = pmap(_check_pair, jobs, repo_root, job_timeout=60, on_timeout=_pair_timeout, skip_result=(True, []))
    failures = [f for _, fs in res for f in fs]
    n_unequal = sum(1 for eq, _ in res if not eq)
    return [{
        'name': 'C02.diff-zero-iff-equal', 'bound': f"all documents with <= {3 if tier == 'quick' else 4} nodes over atoms "
        f"{atoms!r}, keys a/b; {'all' if exhaustive else 'sampled'} ordered pairs; 9 option combinations; {cli_n} pairs through the CLI",
        'evaluations': len(jobs), 'distinct_nontrivial': n_unequal, 'exhaustive': exhaustive,
        'rule': 'pair of documents x build options -> TreeNode.diff(...).edited_cost()==0 and no marked node iff equal '
                'as data; CLI exit status agrees; non-trivial = pair unequal as data',
        'failures': failures,
        'samples': [{'a': j[0], 'b': j[1], 'opt': j[2]} for j in jobs[1000:1003]],
    }]
