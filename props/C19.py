"""C19 - match expressions cannot reach private attributes."""
import itertools
import random

from vlib.par import pmap, with_timeout, JobTimeout

PROPERTY = 'C19'
LEVEL = 'other'
TARGETS = [('expressions', 'expressions.get_member'), ('expressions_value', 'expressions.Expression.get_value')]
TRUSTED = ['getattr(obj, name) reads exactly the attribute called name',
           'mechanical premise checked on every run: DEFAULT_GLOBALS is the comprehension over exactly the documented built-ins',
           'dict membership / lookup of locals and globals (uninterpreted functions)']
ASSUMPTIONS = ['strings are integer sequences of code points; "_" is 95']
EXPLANATION = (
    "Deductive: get_member reaches getattr only with an IdentifierToken whose name does not start with an underscore "
    "(the property is the precondition of getattr), every other case raises ParseError; Expression.get_value resolves an "
    "identifier through the supplied locals, then the supplied globals, otherwise KeyError; the whitelist constant is "
    "checked mechanically against the documented list. What contracts cannot close: FUNCTION_CALL executes a(*b) for any "
    "reachable callable (CPython built-ins and bound methods without contracts) - that part is decided by a bounded "
    "stand-in: grammar-enumerated and mutated expressions evaluated over environments whose objects trip a wire on any "
    "underscore attribute read and whose only free names are the supplied ones.")
READS = []


class Wire:
    """Object whose underscore attributes record reads."""
    pub = 7

    def __init__(self):
        object.__setattr__(self, '_secret', 'S')
        object.__setattr__(self, 'other', 3)

    def __getattribute__(self, name):
        if name.startswith('_'):
            import sys
            caller = sys._getframe(1).f_code.co_name
            # isinstance(value, Token) inside the evaluator itself consults value.__class__: a type test by the
            # interpreter, not an attribute the expression asked for (corrected false alarm, see DESIGN)
            if not (name == '__class__' and caller in ('get_value', 'eval')):
                READS.append(name)
        return object.__getattribute__(self, name)

    def method(self, *a):
        return len(a)


def _env():
    w = Wire()
    return {'x': w, 'l': [w, 1], 'd': {'k': w, '_k': 1}, 's': 'abc', 'n': 3, 'fmt': '{0._secret}', 'fmt2': '{0.__class__}',
            'mapfmt': '{k._secret}'}


def _eval(expr):
    try:
        return with_timeout(_eval_inner, expr, 3, count=False)     # a slow expression is not a failure of C19
    except JobTimeout:
        return []


def _eval_inner(expr):
    from graphtage import expressions
    del READS[:]
    fails = []
    try:
        e = expressions.parse(expr)
    except Exception:
        return fails
    # the same parsed expression is evaluated several times (match expressions are evaluated once per candidate pair of
    # nodes): every evaluation must refuse, not only the first
    n_eval = 0
    for _ in range(3):
        n_eval += 1
        try:
            res = e.eval(locals=_env())
            err = None
        except Exception as ex:
            res, err = None, ex
        if READS:
            break
    reads = list(READS)
    if reads:
        via = 'format-string' if ('format' in expr) else 'other'
        if set(reads) <= {'__origin__', '__qualname__', '__module__', '__args__', '__name__', '__parameters__', '__typing_subst__',
                          '__typing_unpacked_tuple_args__', '__mro_entries__', '__typing_is_unpacked_typevartuple__'}:
            via = 'generic-alias'
        fails.append({'what': f"expression {expr!r} read underscore attribute(s) {sorted(set(reads))} of a supplied object"
                              + (f" (on evaluation #{n_eval} of the same parsed expression)" if n_eval > 1 else ''),
                      'class': f'c19-private-read:{via}', 'input': {'expr': expr}, 'replay': {'kind': 'expr', 'expr': expr}})
    return fails


def _resolve_check(name):
    """A free name that is neither supplied nor whitelisted must not resolve."""
    from graphtage import expressions
    try:
        v = expressions.parse(name).eval(locals={'a': 1})
    except Exception:
        return []
    return [{'what': f"free name {name!r} resolved to {v!r} although it is neither supplied nor in the documented whitelist",
             'class': 'c19-name-resolves', 'input': {'expr': name}, 'replay': {'kind': 'name', 'expr': name}}]


RECEIVERS = ['x', 'l', 'd', 's', 'n', 'd["k"]', 'l[0]', 'l[1]', 'dict(d)', 'dict()', 'list(l)', 'str(n)', 'len', 'str', 'x.method', 'd.items()', 'd.get',
             '(1, 2)', '[1]', 'set(l)', 'frozenset()', 'slice(1)', 'x.pub', 'bytes()', 'bytearray()', 'complex(1)', 'float(n)', 'bool(n)', 'iter(l)', 'zip(l)',
             'map(str, l)', 'enumerate(l)', 'filter(len, [s])', 'sorted(s)', 'od', 'sub', 'd["nested"]']
PRIVATE = ['_k', '_secret', '__class__', '__dict__', '__doc__', '__len__', '__contains__', '__reduce_ex__', '__init__', '_', '__', '__getitem__',
           '__iter__', '__self__', '__name__', '__missing__']


class _SubDict(dict):
    pass


def _refusal_job(recv):
    """Whatever the receiver - plain dict, list, str, number, built-in, bound method, view, object - a member whose name starts
    with an underscore is refused: the evaluation raises, it never yields a value."""
    from collections import OrderedDict
    from graphtage import expressions
    fails = []
    for m in PRIVATE:
        for form in (f'{recv}.{m}', f'{recv}.({m})', f'({recv}).{m}', f'{recv}.{m}()', f'{recv}.{m} == {recv}.{m}'):
            env = _env()
            env['d']['nested'] = {'_k': 2, 'k': 3}
            env['od'] = OrderedDict(a=1, _k=2)
            env['sub'] = _SubDict(a=1, _k=2)
            try:
                expressions.parse(recv).eval(locals=env)
            except Exception:
                break           # (the receiver itself does not evaluate: nothing to refuse)
            try:
                e = expressions.parse(form)
            except Exception:
                continue
            try:
                v = e.eval(locals=env)
            except Exception:
                continue
            fails.append({'what': f"expression {form!r} evaluated to {str(v)[:80]!r}: a member whose name starts with an underscore was read "
                                  f"from a {type(expressions.parse(recv).eval(locals=env)).__name__}", 'class': 'c19-private-member-evaluated',
                          'input': {'expr': form}, 'replay': {'kind': 'refusal', 'recv': recv}})
            break
        if fails:
            break
    return fails


def _history_job(scen):
    """The names an expression can see do not grow with use: after match conditions were evaluated (library classes, the
    command line) or expressions were evaluated with supplied locals, the default globals are still exactly the documented
    built-ins and the names supplied to earlier evaluations ('from', 'to', ...) do not resolve."""
    import json
    from graphtage import expressions
    from vlib import gt
    fails = []

    def fail(kind, what):
        fails.append({'what': f"{what} [after scenario {scen!r}]", 'class': f'c19-{kind}', 'input': {'scenario': scen},
                      'replay': {'kind': 'history', 'scenario': scen}})
    before = dict(expressions.DEFAULT_GLOBALS)
    try:
        if scen == 'matchers':
            from graphtage import constraints, json as gj
            a, b = gj.build_tree({"id": 1, "v": [1, 2]}), gj.build_tree({"id": 2, "v": [1, 3]})
            for src in ('from == to', 'from["id"] == to["id"]', 'len(from) == len(to)', 'from.nosuch', 'to', 'from', '1 == 1', 'nosuchname'):
                cond = expressions.parse(src)
                for cls in (constraints.MatchIf, constraints.MatchUnless):
                    m = cls(cond)
                    for x, y in ((a, b), (a.children()[0], b.children()[0]) if a.children() else (a, b)):
                        try:
                            m(x, y)
                        except Exception:
                            pass
        elif scen == 'cli':
            tf = gt.TempFiles()
            try:
                pa, pb = tf.write(json.dumps({"id": 1, "v": [1, 2]}), '.json'), tf.write(json.dumps({"id": 2, "v": [1, 3]}), '.json')
                for flag, ex in (('--match-if', 'from == to'), ('--match-unless', 'from == to'), ('--match-if', 'from["id"] == to["id"]')):
                    gt.run_cli([pa, pb, '--no-status', '--no-color', flag, ex])
            finally:
                tf.cleanup()
        elif scen == 'eval-locals':
            for src, loc in (('x + 1', {'x': 1}), ('from', {'from': 3}), ('to.real', {'to': 4}), ('secret', {'secret': 's'})):
                try:
                    expressions.parse(src).eval(locals=loc)
                except Exception:
                    pass
            try:
                expressions.parse('g').eval(locals={}, globals={'g': 5})
            except Exception:
                pass
    except Exception as ex:
        fail('history-exception:' + type(ex).__name__, f"{type(ex).__name__}: {ex}")
        return fails
    after = expressions.DEFAULT_GLOBALS
    if set(after) != set(before) or any(after[k] is not before[k] for k in before):
        extra = sorted(set(after) - set(before))
        changed = sorted(k for k in before if k in after and after[k] is not before[k])
        fail('default-globals-modified', f"expressions.DEFAULT_GLOBALS changed by use: new names {extra}, removed {sorted(set(before) - set(after))}, rebound {changed}")
    for n in ('from', 'to', 'x', 'secret', 'g'):
        for f in _resolve_check(n):
            f['what'] += f" [after scenario {scen!r}]"
            f['replay'] = {'kind': 'history', 'scenario': scen}
            fails.append(f)
    return fails


def witnesses(func_result, ob, repo_root, tier):
    for expr in ('x._secret', 'x.__class__', 'x.__dict__', 'l[0]._secret', 'd["k"]._secret', 'x.pub._x', '(x)._secret',
                 'x . _secret', 'x.method._secret', 'x.__getattribute__("_secret")'):
        f = [g for g in _eval_inner(expr) if g['class'].endswith(':other')]
        if f:
            return f[:1]
    return []


def replay(entry, repo_root):
    r = entry.get('replay') or {}
    if r.get('kind') == 'expr':
        f = _eval_inner(r['expr'])
        return f[0]['what'] if f else None
    if r.get('kind') == 'refusal':
        f = _refusal_job(r['recv'])
        return f[0]['what'] if f else None
    if r.get('kind') == 'history':
        f = _history_job(r['scenario'])
        return f[0]['what'] if f else None
    if r.get('kind') == 'name':
        f = _resolve_check(r['expr'])
        return f[0]['what'] if f else None
    return None


ATOMS = ['x', 'l', 'd', 's', 'n', 'fmt', 'fmt2', 'mapfmt', '1', '"_secret"', "'__class__'", 'str', 'len', 'map', 'list', 'dict', 'id',
         'hash', 'sorted', 'iter', 'filter', 'slice']
MEMBERS = ['pub', 'other', '_secret', '__class__', '__dict__', '__init__', 'format', 'format_map', 'method', '__getattribute__',
           'items', 'keys', 'get', '_k', 'real', '__globals__', '__self__', '__func__', 'join', '__module__', '__doc__', 'mro']


def gen(depth, rnd=None):
    if depth == 0:
        return list(ATOMS)
    sub = gen(depth - 1)
    if rnd is not None and len(sub) > 60:
        sub = rnd.sample(sub, 60)
    out = list(sub)
    for a in sub:
        for m in MEMBERS:
            out.append(f'{a}.{m}')
            if m.startswith('_') or depth == 1:
                # member names written in unusual but accepted ways: grouped, spaced, doubly grouped
                out.append(f'{a}.({m})')
                out.append(f'{a}.(({m}))')
                out.append(f'{a} .( {m} )')
                out.append(f'({a}).({m})')
        out.append(f'({a})')
        out.append(f'{a}[0]')
        out.append(f'{a}["k"]')
        out.append(f'{a}()')
        out.append(f'not {a}')
    for a in sub[:25]:
        for b in sub[:25]:
            out.append(f'{a}({b})')
            out.append(f'{a}[{b}]')
            out.append(f'{a} + {b}')
            out.append(f'{a} == {b}')
            out.append(f'{a}({b}, {b})')
            out.append(f'{a} and {b}')
    return out


def bounded(tier, seed, repo_root):
    rnd = random.Random(seed)
    exprs = gen(1)
    d2 = gen(2, rnd)
    exprs += d2 if tier != 'quick' else rnd.sample(d2, min(len(d2), 25000))
    if tier != 'quick':
        d3 = gen(3, rnd)
        exprs += rnd.sample(d3, min(len(d3), 200000))
    # hand-written routes: format strings, bound-method tricks, whitespace / parenthesis variants
    exprs += ['fmt.format(x)', 'fmt2.format(x)', 'mapfmt.format_map(d)', '"{0._secret}".format(x)', 'str.format(fmt, x)',
              'x . _secret', 'x._secret', '(x)._secret', 'l[0]._secret', 'd["k"]._secret', 'x.method._secret', 'x.__class__',
              'x.pub.__class__', 'map(str, l)', 'list(map(len, [s]))', 'x.__getattribute__("_secret")', 'sorted(d)[0]',
              'd["_k"]', 'x.method(x._secret)', 'len(x.__dict__)', 'str(x)', 'hash(x)', 'id(x)', 'x.other', 'x.pub',
              '"%s" % x', 'fmt % x', 'x._ ', 'x.__', 'x._secret.upper()', 'x.method.__self__', 'x.method.__func__',
              'x.(_secret)', 'x.((__dict__))', 'x.pub.(_x)', 'l[0].(_secret)', 'x.(__class__).(__name__)', '(x).(_secret)',
              'x.(pub).(_x)', 'x.(method)(x.(_secret))']
    exprs = list(dict.fromkeys(exprs))
    res = pmap(_eval, exprs, repo_root, chunksize=400)
    fails = [f for fs in res for f in fs]
    names = ['open', '__import__', 'getattr', 'eval', 'exec', 'globals', 'locals', 'vars', 'setattr', 'type', 'object', 'compile',
             'print', 'input', 'dir', '__builtins__', 'super', 'memoryview', 'breakpoint', 'classmethod', 'property', 'range',
             'repr', 'isinstance', 'callable', 'delattr', 'hasattr', 'b', 'from', 'to']
    for n in names:
        fails += _resolve_check(n)
    fails += [f for fs in pmap(_refusal_job, RECEIVERS, repo_root, chunksize=1, job_timeout=60, on_timeout=None) for f in fs]
    scens = ['matchers', 'cli', 'eval-locals']
    for scen in scens:      # (own pool each: state left behind stays in that worker)
        fails += [f for fs in pmap(_history_job, [scen], repo_root, workers=1) for f in fs]
    return [{
        'name': 'C19.tripwire', 'bound': f"{len(exprs)} expressions: grammar over {len(ATOMS)} atoms x {len(MEMBERS)} member names, calls, "
        f"indexing, operators to depth {2 if tier == 'quick' else 3} (depth>=2 sampled) + hand-written routes; {len(names)} free names; {len(RECEIVERS)} kinds of receiver x {len(PRIVATE)} underscore names x 5 spellings that must be refused; {len(scens)} usage histories (match conditions through the library classes and the command line, evaluations with supplied locals / globals) after which the default globals and 5 free names are re-checked",
        'evaluations': len(exprs) + len(names), 'distinct_nontrivial': len(exprs), 'exhaustive': False,
        'rule': 'expression string -> parse(...).eval(locals=env with tripwired objects): no read of an attribute whose name '
                'starts with "_"; free names outside supplied/whitelist do not resolve',
        'failures': fails, 'samples': exprs[500:503],
    }]
