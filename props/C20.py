"""C20 - malformed input is reported, not crashed on."""
import io
import json
import os
import plistlib
import random

from vlib import gt
from vlib.par import pmap, timeout_failure

PROPERTY = 'C20'
LEVEL = 'other'
TARGETS = [('loaders', f'{m}.{c}.build_tree_handling_errors') for m, c in
           (('json', 'JSON'), ('json', 'JSON5'), ('yaml', 'YAML'), ('xml', 'XML'), ('plist', 'PLIST'))]
TRUSTED = [
    'ASSUMED raises-sets of the third-party parsers on malformed input: json -> JSONDecodeError or UnicodeDecodeError (text-mode read); json5 -> ValueError; '
    'yaml -> YAMLError; xml.etree -> ParseError; plistlib -> ExpatError, InvalidFileException (ValueError), LookupError',
    'os.path.basename is total',
]
ASSUMPTIONS = ['f-string rule: a non-empty format spec on an object without __format__ raises TypeError (CPython semantics)']
EXPLANATION = (
    "Deductive: exception-flow contracts - each Filetype.build_tree_handling_errors is executed against the assumed "
    "raises-set of its loader; every exception in the set must be caught by a handler whose body itself cannot raise "
    "(named obligations handled[Exc] / no-raise[Exc]). Bounded fault enumeration (the parsers are outside the "
    "verifier): truncation at every byte, deletion and duplication of every delimiter of a corpus of valid documents per "
    "format, kept only if an independent parser rejects the result, fed to graphtage.__main__.main as first and as "
    "second file: message on stderr naming the file, no diff on stdout, non-zero status, no uncaught exception.")

CORPUS = {
    'json': ['{"a": [1, 2, {"b": "x y"}], "c": true, "d": null}', '[1, [2, [3, "four"]], {"k": "v"}]', '"str"', '{"k": {"k": {"k": []}}}'],
    'json5': ['{a: [1, 2, {b: "x"}], c: true, // comment\n d: null}', "[1, [2, 'three'], {k: 0x10}]"],
    'yaml': ['a:\n  - 1\n  - 2\n  - b: "x"\nc: true\n', '- 1\n- [2, 3]\n- {k: v}\n', 'k: "quoted: value"\nl: [1, 2]\n'],
    'xml': ['<root a="1"><b>text</b><c d="2"/><e><f>x</f></e></root>', '<a><b/><b/></a>',
            '<?xml version="1.0" encoding="UTF-8"?>\n<r><s k="v">t</s></r>'],
    'html': ['<html><body><p class="x">hi</p><br/></body></html>'],
}
# documents with multi-byte characters: byte-level truncation cuts inside a character
NON_ASCII = {
    'json': ['{"caf\u00e9": ["\u00fc", "\u4e2d\u6587"], "k": "\U0001f600"}'],
    'json5': ['{a: "caf\u00e9", b: [\'\u4e2d\']}'],
    'yaml': ['name: "caf\u00e9"\nl:\n  - \u00fc\n  - "\u4e2d\u6587"\n'],
    'xml': ['<r a="\u00e9"><b>\u4e2d\u6587</b></r>'],
    'html': ['<html><body><p>caf\u00e9</p></body></html>'],
}
for _k, _v in NON_ASCII.items():
    CORPUS[_k] = CORPUS[_k] + _v
SUFFIX = {'json': '.json', 'json5': '.json5', 'yaml': '.yml', 'xml': '.xml', 'html': '.html', 'plist': '.plist'}
DELIMS = set(b'{}[]<>",:\'/=-')


def _plist_corpus():
    return [plistlib.dumps({"a": [1, 2, {"b": "x"}], "c": True}).decode(), plistlib.dumps([1, "two", {"k": 3.5}]).decode(),
            plistlib.dumps({"caf\u00e9": ["\u4e2d\u6587"]}).decode(),
            # every plist value kind: dates, data, reals, booleans (content that a corrupted delimiter makes unparsable)
            plistlib.dumps({"when": __import__('datetime').datetime(2020, 1, 2, 3, 4, 5), "blob": b"\x00\x01binary", "r": 2.5, "t": True,
                            "n": -7}).decode()]


def _valid(fmt, text):
    """Independent notion of validity for the format (text: the bytes of the file)."""
    try:
        if fmt in ('json', 'json5'):
            text = text.decode('utf-8')
        if fmt == 'json':
            json.loads(text)
        elif fmt == 'json5':
            import json5
            json5.loads(text)
        elif fmt == 'yaml':
            import yaml
            list(yaml.safe_load_all(text))
        elif fmt in ('xml', 'html'):
            import xml.dom.minidom
            xml.dom.minidom.parseString(text)
        elif fmt == 'plist':
            plistlib.loads(text)
        return True
    except Exception:
        return False


def corruptions(fmt, text, stride=1):
    """Byte-level corruptions of the UTF-8 encoding of text."""
    if isinstance(text, str):
        text = text.encode('utf-8')
    seen = set()
    for i in range(0, len(text), stride):
        cands = [text[:i]]
        if text[i] in DELIMS:
            cands += [text[:i] + text[i + 1:], text[:i] + text[i:i + 1] + text[i:]]
        for c in cands:
            if c not in seen:
                seen.add(c)
                yield c
    for extra in (text + text[-1:], text[:1] + text, text.replace(b'<', b'<<', 1), text.replace(b'[', b'[[', 1), text.replace(b'{', b'{{', 1)):
        if extra not in seen:
            seen.add(extra)
            yield extra


def witnesses(func_result, ob, repo_root, tier):
    fn = func_result['function']
    fmt = {'json.JSON': 'json', 'json.JSON5': 'json5', 'yaml.YAML': 'yaml', 'xml.XML': 'xml', 'plist.PLIST': 'plist'}.get(
        '.'.join(fn.split('.')[:2]))
    if fmt is None:
        return []
    texts = _plist_corpus() if fmt == 'plist' else CORPUS[fmt]
    for t in texts:
        for c in corruptions(fmt, t):
            if _valid(fmt, c):
                continue
            for pos in (0, 1):
                f = _run((fmt, c, pos))
                if f:
                    return f[:1]
    return []


def replay(entry, repo_root):
    r = entry.get('replay') or {}
    if r.get('kind') == 'stdin':
        f = _run_stdin((r['fmt'], bytes.fromhex(r['hex']), r['pos'], repo_root))
        return f[0]['what'] if f else None
    if r.get('kind') == 'corrupt':
        data = bytes.fromhex(r['hex']) if 'hex' in r else r['text'].encode('utf-8')
        f = _run((r['fmt'], data, r['pos'], r.get('extra') or []))
        return f[0]['what'] if f else None
    return None


GOOD = {'json': '[1]', 'json5': '[1]', 'yaml': '- 1\n', 'xml': '<a/>', 'html': '<a/>'}


def _run(job):
    fmt, text, pos = job[:3]
    extra = list(job[3]) if len(job) > 3 else []
    tf = gt.TempFiles()
    fails = []
    try:
        bad = tf.write(text, SUFFIX[fmt], binary=True)
        good_text = GOOD.get(fmt) or plistlib.dumps([1]).decode()
        good = tf.write(good_text, SUFFIX[fmt])
        argv = ([bad, good] if pos == 0 else [good, bad]) + ['--no-status', '--no-color', f'--from-{fmt}', f'--to-{fmt}'] + extra
        rc, out, err, exc = gt.run_cli(argv)
        name = os.path.basename(bad)
        cls = None
        if exc is not None:
            cls, what = f'c20-uncaught:{fmt}:{type(exc).__name__}', f"uncaught {type(exc).__name__}: {exc}"
        elif rc in (0, None):
            cls, what = f'c20-exit-status:{fmt}', f"exit status {rc} for a malformed file"
        elif name not in err:
            cls, what = f'c20-no-message:{fmt}', f"stderr does not name the file: {err[-200:]!r}"
        elif out.strip():
            cls, what = f'c20-diff-printed:{fmt}', f"stdout is not empty: {out[:80]!r}"
        if cls:
            fails.append({'what': f"{what} [{fmt} file as {'first' if pos == 0 else 'second'} argument{' with ' + ' '.join(extra) if extra else ''}: {text[:70]!r}]", 'class': cls,
                          'input': {'fmt': fmt, 'bytes': repr(text), 'pos': pos},
                          'replay': {'kind': 'corrupt', 'fmt': fmt, 'hex': text.hex(), 'pos': pos, 'extra': extra}})
    finally:
        tf.cleanup()
    return fails


def _run_stdin(job):
    """The malformed document arrives on standard input ('-' in either position): the real command in a subprocess."""
    import subprocess
    import sys
    fmt, text, pos, repo = job
    tf = gt.TempFiles()
    fails = []
    try:
        good_text = GOOD.get(fmt) or plistlib.dumps([1]).decode()
        good = tf.write(good_text, SUFFIX[fmt])
        argv = (['-', good] if pos == 0 else [good, '-']) + ['--no-status', '--no-color', f'--from-{fmt}', f'--to-{fmt}']
        env = dict(os.environ)
        env['PYTHONPATH'] = repo + os.pathsep + env.get('PYTHONPATH', '')
        p = subprocess.run([sys.executable, '-m', 'graphtage'] + argv, input=text, env=env, capture_output=True, timeout=100)
        err, out = p.stderr.decode('utf-8', 'replace'), p.stdout.decode('utf-8', 'replace')
        cls = None
        if 'Traceback (most recent call last)' in err:
            last = [ln for ln in err.strip().splitlines() if ln.strip()]
            cls, what = f'c20-uncaught:{fmt}:stdin', f"uncaught exception: {last[-1][:160] if last else ''}"
        elif p.returncode == 0:
            cls, what = f'c20-exit-status:{fmt}', "exit status 0 for a malformed document"
        elif 'Error parsing' not in err:
            cls, what = f'c20-no-message:{fmt}', f"no 'Error parsing <file>' message on stderr: {err[-200:]!r}"
        elif out.strip():
            cls, what = f'c20-diff-printed:{fmt}', f"stdout is not empty: {out[:80]!r}"
        if cls:
            fails.append({'what': f"{what} [{fmt} document on standard input as {'first' if pos == 0 else 'second'} argument: {text[:70]!r}]", 'class': cls,
                          'input': {'fmt': fmt, 'bytes': repr(text), 'pos': pos, 'stdin': True},
                          'replay': {'kind': 'stdin', 'fmt': fmt, 'hex': text.hex(), 'pos': pos}})
    finally:
        tf.cleanup()
    return fails


def bounded(tier, seed, repo_root):
    jobs = []
    sjobs = []
    rejected = 0
    corp = dict(CORPUS)
    corp['plist'] = _plist_corpus()
    if tier != 'quick':
        # generated documents (nested containers, every scalar kind, non-ASCII text) serialised with each library's dumper
        import yaml
        from vlib import docs as D
        rnd = random.Random(seed)
        atoms = [0, -3, 2.5, True, None, "", "caf\u00e9", "a b", "\u4e2d", "x\ty"]
        pool = D.enum_docs(5, atoms=atoms, keys=['k', '\u00fc', 'a b'], max_width=3)
        sample = rnd.sample(pool, min(len(pool), 40))
        corp = {k: list(v) for k, v in corp.items()}
        for doc in sample:
            corp['json'].append(json.dumps(doc, ensure_ascii=False))
            corp['json5'].append(json.dumps(doc, ensure_ascii=False))
            corp['yaml'].append(yaml.safe_dump(doc, allow_unicode=True))
            if 'None' not in repr(doc) and isinstance(doc, (list, dict)):
                corp['plist'].append(plistlib.dumps(doc).decode())
    stride = 2 if tier == 'quick' else 1
    for fmt, texts in corp.items():
        for t in texts:
            for c in corruptions(fmt, t, stride if len(t) > 120 else 1):
                if _valid(fmt, c):
                    continue
                rejected += 1
                jobs.append((fmt, c, 0))
                jobs.append((fmt, c, 1))
                if rejected % (11 if tier == 'quick' else 3) == 0 or (any(b >= 0x80 for b in c[-2:]) and rejected % 2 == 0):
                    sjobs.append((fmt, c, rejected % 2, repo_root))       # (incl. cuts inside multi-byte characters)
                if rejected % 7 == 0:
                    # the message must not depend on the verbosity options
                    jobs.append((fmt, c, rejected % 2, ['--quiet']))
                    jobs.append((fmt, c, (rejected + 1) % 2, ['--log-level', 'CRITICAL']))
    cap = 600 if tier == 'quick' else 3000
    if len(sjobs) > cap:
        sjobs = random.Random(seed).sample(sjobs, cap)      # (each is a subprocess of about a second)
    res = pmap(_run, jobs, repo_root, job_timeout=60, on_timeout=timeout_failure('C20'))
    fails = [f for fs in res for f in fs]
    fails += [f for fs in pmap(_run_stdin, sjobs, repo_root, chunksize=2, job_timeout=150, on_timeout=timeout_failure('C20')) for f in fs]
    return [{
        'name': 'C20.fault-enumeration', 'bound': f"{sum(len(v) for v in corp.values())} valid documents over json/json5/yaml/xml/html/"
        f"plist; byte-level truncation at every {'2nd ' if stride == 2 else ''}byte (every byte for short files, cutting inside multi-byte characters), deletion/duplication of every "
        f"delimiter, doubled brackets/tags; kept only if an independent parser rejects ({rejected} corruptions); both positions; {len(sjobs)} of them also piped to the real command on standard input ('-')",
        'evaluations': len(jobs) + len(sjobs), 'distinct_nontrivial': rejected, 'exhaustive': stride == 1,
        'rule': 'corrupted file x position -> main(): message naming the file on stderr, empty stdout, non-zero status, no '
                'uncaught exception; non-trivial = corruption rejected by the independent parser',
        'failures': fails, 'samples': [{'fmt': j[0], 'bytes': repr(j[1][:60]), 'pos': j[2]} for j in jobs[50:53]],
    }]
