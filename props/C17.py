"""C17 - bound-driven search, ordering and separation are correct."""
import itertools
import random

from vlib.par import pmap, timeout_failure

PROPERTY = 'C17'
LEVEL = 'other'
TARGETS = [('bounded', 'bounds.BoundedComparator.__lt__'), ('bounded', 'bounds.BoundedComparator.__le__'),
           ('bounded', 'tree.Edit.has_non_zero_cost')]
TRUSTED = ['protocol B for the compared items (assumed; items are arbitrary sound Bounded objects)',
           'the two compared comparators wrap distinct objects']
ASSUMPTIONS = ['finite ranges']
EXPLANATION = (
    "Deductive: BoundedComparator.__lt__/__le__ are discharged from the real source for arbitrary sound Bounded items "
    "and arbitrary tightening rates: a True answer implies final(self) <= final(other), a False answer the converse, "
    "the items are never widened and the loops terminate (variant: sum of the items' termination measures). "
    "IterativeTighteningSearch, sort, min_bounded and make_distinct work on heaps / interval trees of live objects and "
    "are out of the VC generator's reach: they are decided by a bounded stand-in over synthetic Bounded items whose "
    "tightening schedule is data (all initial ranges within [0,4], finals in {0,1,2}, 5 schedules per item; all "
    "collections of 1-2 items, sampled/all triples), checking minimality, single-valued search bounds, ordering, "
    "separation and termination under a step budget.")
STEP_BUDGET = 400
POLICIES = ['lb', 'ub', 'alt', 'jump', 'lbjump']


def witnesses(func_result, ob, repo_root, tier):
    return []


class StepBudget(Exception):
    pass


class Item:
    """Synthetic sound Bounded object: range [lb, ub] containing final; the schedule decides which end moves."""
    def __init__(self, lb, ub, final, policy, inf_first=False, tag=0):
        self.lb, self.ub, self.final, self.policy, self.tag = lb, ub, final, policy, tag
        self.steps = 0
        self.widened = False
        self.unbounded = bool(inf_first)      # reports the unbounded Range() until the first tighten_bounds()

    def bounds(self):
        from graphtage.bounds import Range
        if self.unbounded:
            return Range()
        return Range(self.lb, self.ub)

    def tighten_bounds(self):
        if self.unbounded:
            self.unbounded = False
            self.steps += 1
            return True
        if self.lb == self.ub:
            return False
        self.steps += 1
        if self.steps > STEP_BUDGET:
            raise StepBudget()
        p = self.policy
        can_lb, can_ub = self.lb < self.final, self.ub > self.final
        if p == 'jump' or (p == 'lbjump' and not can_lb):
            self.lb = self.ub = self.final
        elif p in ('lb', 'lbjump'):
            if can_lb:
                self.lb += 1
            else:
                self.ub -= 1
        elif p == 'ub':
            if can_ub:
                self.ub -= 1
            else:
                self.lb += 1
        else:  # alternate
            if (self.steps % 2 == 1 and can_lb) or not can_ub:
                self.lb += 1
            else:
                self.ub -= 1
        return True

    def spec(self):
        return (self.lb, self.ub, self.final, self.policy, self.unbounded)

    def __repr__(self):
        return f"Item[{self.lb},{self.ub}]->{self.final}/{self.policy}"


class EmptyItem(Item):
    """A Bounded object that is container-like and empty (as an edit without sub-edits is): falsy through __len__."""
    def __len__(self):
        return 0


class FalseItem(Item):
    """A Bounded object with a truth value of its own (as a finished IterativeTighteningSearch has)."""
    def __bool__(self):
        return False


def item_types():
    res = []
    for final in (0, 1, 2):
        for lb in range(0, final + 1):
            for ub in range(final, 5):
                for p in POLICIES:
                    if lb == ub and p != 'lb':
                        continue
                    res.append((lb, ub, final, p))
    return res


def _mk(specs):
    # spec: (lb, ub, final, policy[, unbounded first[, 'len' | 'bool' : a falsy object]])
    return [{None: Item, 'len': EmptyItem, 'bool': FalseItem}[s[5] if len(s) > 5 else None](*s[:5], tag=i) for i, s in enumerate(specs)]


def _cmp_check(specs, fail):
    """BoundedComparator directly: a < b / a <= b answered consistently with the final costs, for every ordered pair."""
    from graphtage import bounds as gb
    import itertools as it
    for i, j in it.permutations(range(len(specs)), 2):
        for op in ('<', '<='):
            items = _mk(specs)
            a, b = gb.BoundedComparator(items[i]), gb.BoundedComparator(items[j])
            try:
                r = (a < b) if op == '<' else (a <= b)
            except RecursionError:
                fail('comparator-recursion', f"BoundedComparator {op} recursed without end on items {i},{j}")
                return
            fa, fb = items[i].final, items[j].final
            if (r and fa > fb) or (not r and fa < fb) or (op == '<=' and not r and fa == fb):
                fail('comparator', f"BoundedComparator(item {i}) {op} BoundedComparator(item {j}) answered {r}; finals {fa} and {fb}")
                return
            for x in (items[i], items[j]):
                if not x.unbounded and not (x.lb <= x.final <= x.ub):
                    fail('harness', 'synthetic item left its own range')


def _check(specs):
    from graphtage.search import IterativeTighteningSearch
    from graphtage import bounds as gb
    fails = []
    mn = min(s[2] for s in specs)

    def fail(kind, what):
        fails.append({'input': {'items': [list(s) for s in specs]}, 'what': f"{what} for items {specs}",
                      'class': f'c17-{kind}', 'replay': {'kind': 'items', 'items': [list(s) for s in specs]}})
    # search
    try:
        items = _mk(specs)
        s = IterativeTighteningSearch(iter(items))
        best = s.search()
        if best is None or best.final != mn:
            fail('search-not-minimal', f"search() returned {best!r}, minimum final is {mn}")
        b = s.bounds()
        if not (b.lower_bound == b.upper_bound == mn):
            fail('search-bounds', f"search bounds {b} after search(), expected the single value {mn}")
    except StepBudget:
        fail('search-nontermination', f"search exceeded {STEP_BUDGET} tightening steps on one item")
    except Exception as e:
        fail('search-exception:' + type(e).__name__, f"search raised {type(e).__name__}: {e}")
    # the search object itself follows the Bounded protocol (C04 anchors search.py:135-241): driven one step at a time
    try:
        items = _mk(specs)
        s = IterativeTighteningSearch(iter(items))
        prev = s.bounds()
        n = 0
        while True:
            r = s.tighten_bounds()
            cur = s.bounds()
            n += 1
            if cur.lower_bound < prev.lower_bound or cur.upper_bound > prev.upper_bound:
                fail('search-step-widened', f"step {n}: search bounds went from {prev} to {cur}")
                break
            if not (cur.lower_bound <= mn <= cur.upper_bound):
                fail('search-step-unsound', f"step {n}: search bounds {cur} exclude the minimum final cost {mn}")
                break
            if r and cur.lower_bound == prev.lower_bound and cur.upper_bound == prev.upper_bound:
                fail('search-step-true-without-progress', f"step {n}: tighten_bounds() returned True with bounds unchanged at {cur}")
                break
            if not r:
                if cur.lower_bound != cur.upper_bound:
                    fail('search-step-false-not-definitive', f"step {n}: tighten_bounds() returned False with bounds {cur}")
                break
            if n > 10 * STEP_BUDGET:
                fail('search-nontermination', f"more than {10 * STEP_BUDGET} search steps")
                break
            prev = cur
    except StepBudget:
        fail('search-nontermination', f"stepwise search exceeded {STEP_BUDGET} tightening steps on one item")
    except Exception as e:
        fail('search-step-exception:' + type(e).__name__, f"stepwise search raised {type(e).__name__}: {e}")
    # a-priori bounds on the minimum handed to the constructor (PossibleEdits does this): every sound initial range
    INF = gb.POSITIVE_INFINITY if hasattr(gb, 'POSITIVE_INFINITY') else None
    if INF is not None:
        NINF = gb.NEGATIVE_INFINITY
        # (upper ends stay above every item's range: the search prunes an item whose lower bound EQUALS the a-priori upper
        # bound - non-strict `dominates` - which the property, quantified over collections and schedules only, does not cover)
        for lo, hi in ((mn, INF), (mn, 5), (max(mn - 1, 0), 5), (0, 5), (NINF, 5)):
            try:
                items = _mk(specs)
                s = IterativeTighteningSearch(iter(items), initial_bounds=gb.Range(lo, hi))
                prev = s.bounds()
                n = 0
                while True:
                    r = s.tighten_bounds()
                    cur = s.bounds()
                    n += 1
                    if cur.lower_bound < prev.lower_bound or cur.upper_bound > prev.upper_bound:
                        fail('search-init-step-widened', f"initial bounds [{lo}, {hi}], step {n}: search bounds went from {prev} to {cur}")
                        break
                    if not (cur.lower_bound <= mn <= cur.upper_bound):
                        fail('search-init-step-unsound', f"initial bounds [{lo}, {hi}], step {n}: search bounds {cur} exclude the minimum {mn}")
                        break
                    if not r or n > 10 * STEP_BUDGET:
                        break
                    prev = cur
                best = s.best_match
                if best is None or best.final != mn:
                    fail('search-init-not-minimal', f"initial bounds [{lo}, {hi}]: search ended with {best!r}, minimum final is {mn}")
            except StepBudget:
                fail('search-nontermination', f"search with initial bounds [{lo}, {hi}] exceeded the step budget")
            except Exception as e:
                fail('search-init-exception:' + type(e).__name__, f"search with initial bounds [{lo}, {hi}] raised {type(e).__name__}: {e}")
    # the documented ordering loop over goal_test() / remove_best()
    try:
        items = _mk(specs)
        s = IterativeTighteningSearch(iter(items))
        out, guard = [], 0
        while s.tighten_bounds():
            while not s.goal_test() and s.tighten_bounds():
                pass
            if s.goal_test():
                out.append(s.remove_best())
            guard += 1
            if guard > 10 * STEP_BUDGET:
                raise StepBudget()
        while s.goal_test():
            out.append(s.remove_best())
            guard += 1
            if guard > 10 * STEP_BUDGET:
                raise StepBudget()
        if any(x is None for x in out) or len({id(x) for x in out}) != len(out):
            fail('remove-best-items', f"goal_test/remove_best loop yielded {out!r}")
        elif out and out[0].final != mn:
            fail('remove-best-first', f"goal_test/remove_best loop yielded first {out[0]!r}, minimum final is {mn}")
    except StepBudget:
        fail('search-nontermination', 'goal_test/remove_best loop exceeded the step budget')
    except Exception as e:
        fail('remove-best-exception:' + type(e).__name__, f"goal_test/remove_best loop raised {type(e).__name__}: {e}")
    try:
        _cmp_check(specs, fail)
    except StepBudget:
        fail('comparator-nontermination', 'a comparison exceeded the step budget')
    except Exception as e:
        fail('comparator-exception:' + type(e).__name__, f"comparison raised {type(e).__name__}: {e}")
    # sort
    try:
        items = _mk(specs)
        out = list(gb.sort(items))
        if sorted(id(x) for x in out) != sorted(id(x) for x in items):
            fail('sort-not-permutation', f"sort returned {out!r}")
        elif any(a.final > b.final for a, b in zip(out, out[1:])):
            fail('sort-order', f"sort yielded finals {[x.final for x in out]}")
    except StepBudget:
        fail('sort-nontermination', 'sort exceeded the step budget')
    except Exception as e:
        fail('sort-exception:' + type(e).__name__, f"sort raised {type(e).__name__}: {e}")
    # min_bounded
    try:
        items = _mk(specs)
        m = gb.min_bounded(iter(items))
        if m is None or m.final != mn:
            fail('min-bounded', f"min_bounded returned {m!r}, minimum final is {mn}")
    except StepBudget:
        fail('min-nontermination', 'min_bounded exceeded the step budget')
    except Exception as e:
        fail('min-exception:' + type(e).__name__, f"min_bounded raised {type(e).__name__}: {e}")
    # make_distinct
    try:
        items = _mk(specs)
        gb.make_distinct(*items)
        for x, y in itertools.combinations(items, 2):
            if x.unbounded or y.unbounded:
                fail('make-distinct', f"make_distinct left {x!r} with an unbounded range")
                break
            xd, yd = x.lb == x.ub, y.lb == y.ub
            disjoint = x.ub < y.lb or y.ub < x.lb
            if not (disjoint or (xd and yd)):
                fail('make-distinct', f"make_distinct left {x!r} and {y!r} overlapping and not both definitive")
                break
        for x in items:
            if not (x.lb <= x.final <= x.ub):
                fail('harness', 'synthetic item left its own range')
    except StepBudget:
        fail('make-distinct-nontermination', 'make_distinct exceeded the step budget')
    except Exception as e:
        fail('make-distinct-exception:' + type(e).__name__, f"make_distinct raised {type(e).__name__}: {e}")
    return fails


def replay(entry, repo_root):
    r = entry.get('replay') or {}
    if r.get('kind') == 'items':
        f = _check([tuple(s) for s in r['items']])
        return f[0]['what'] if f else None
    return None


def bounded(tier, seed, repo_root):
    types = item_types()
    colls = [(t,) for t in types] + list(itertools.product(types, repeat=2))
    rnd = random.Random(seed)
    n3 = 20000 if tier == 'quick' else 400000
    triples = [tuple(rnd.choice(types) for _ in range(3)) for _ in range(n3)]
    quads = [tuple(rnd.choice(types) for _ in range(4)) for _ in range(n3 // 4)]
    # items that report the unbounded Range() until their first tighten_bounds() (a sound, merely uninformative start)
    unb = [tuple(t + (rnd.random() < 0.6,) for t in c) for c in rnd.sample(colls, min(len(colls), 4000 if tier == 'quick' else 40000))]
    unb += [tuple(t + (rnd.random() < 0.5,) for t in c) for c in triples[:n3 // 10]]
    # items that are falsy objects (empty container-like, or with __bool__): truthiness must never stand in for "is None"
    fal = [tuple(t + (False, rnd.choice(['len', 'bool', None, 'len'])) for t in c) for c in rnd.sample(colls, min(len(colls), 3000 if tier == 'quick' else 30000))]
    fal += [tuple(t + (rnd.random() < 0.3, rnd.choice(['len', 'bool', None])) for t in c) for c in triples[:n3 // 10]]
    jobs = colls + triples + quads + unb + fal
    res = pmap(_check, jobs, repo_root, job_timeout=20, on_timeout=timeout_failure('C17'))
    fails = [f for fs in res for f in fs]
    return [{
        'name': 'C17.synthetic-bounded-items',
        'bound': f"{len(types)} item types (initial range within [0,4], final in 0..2, schedules {POLICIES}); all 1- and "
                 f"2-item collections ({len(colls)}), {len(triples)} seeded 3-item and {len(quads)} 4-item collections; "
                 f"step budget {STEP_BUDGET} per item; {len(unb)} collections with items that start unbounded, {len(fal)} with items that are falsy objects (__len__ == 0 / __bool__ False)",
        'evaluations': len(jobs) * 4, 'distinct_nontrivial': len(set(jobs)), 'exhaustive': False,
        'rule': 'collection of synthetic sound Bounded items -> IterativeTighteningSearch.search/bounds, bounds.sort, '
                'bounds.min_bounded, bounds.make_distinct; non-trivial = distinct collection',
        'failures': fails, 'samples': [[list(s) for s in j] for j in jobs[3000:3003]],
    }]
