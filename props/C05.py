"""C05 - results do not depend on how the edit API is driven or on status settings."""
import itertools
import random

from vlib import gt
from vlib.par import pmap, timeout_failure

PROPERTY = 'C05'
LEVEL = 'other'
ED = ['is_complete', '_add_node', '_best_match', '_fringe_diagonal', '_next_fringe', '_cleanup', 'bounds', 'edits',
      'tighten_bounds']
TARGETS = [('editdistance', f'levenshtein.EditDistance.{m}') for m in ED] + [
    ('editdistance_init', 'levenshtein.EditDistance.__init__'), ('editdistance_init', 'levenshtein.EditDistance.bounds')]
TRUSTED = [
    'interface contracts for matrix cells of unknown class (protocol B) and TreeNode.edits',
    'make_distinct only tightens its arguments',
    'EditDistance.bounds, incomplete branch: no cell cost exceeds the constructor upper bound (explicit assume in ghost '
    'code; monitored by the C04 stand-in)',
    'EditDistance.__init__: constant_cost <= cost_upper_bound is an explicit assume (the popped nodes are a sub-multiset of one sequence; abstract heap contract)',
    'termination of the mutually recursive bounds/edits/_cleanup/tighten_bounds is not proved',
]
ASSUMPTIONS = ['the progress printer setting (DEFAULT_PRINTER.quiet) is modelled as an arbitrary boolean at every read',
               'integer-keyed dict literal in _cleanup modelled as a sparse matrix']
EXPLANATION = (
    "Deductive: the history property is turned into a representation invariant ed_wf of levenshtein.EditDistance "
    "(matrix shape or freed-with-script typestate, cell typing, exactly the anti-diagonals 1..d filled, cells satisfy "
    "the Bounded well-formedness, stored script is a lattice path) and every operation - is_complete, bounds, "
    "tighten_bounds, edits, _cleanup, _next_fringe, _add_node, _best_match, _fringe_diagonal - is verified to require "
    "and re-establish it with every subscript in range and no None dereference, for both values of the quiet setting; "
    "so any interleaving of the public operations is safe. Bounded stand-in for the other edit classes and for "
    "'same final cost and script': all operation sequences up to length 3 (+ sampled longer ones) over the public "
    "operations on edits of nested document pairs x quiet/non-quiet, compared with the canonical driving order; "
    "printing with colour on/off.")
OPS = ['b', 't', 'c', 'v', 'e', 'h']
# 'D': the driving loop of TreeNode.diff() / get_all_edit_contexts(): tighten until is_complete(), then list the script
DIFF_SEQS = ['D', 'tD', 'bD', 'Dt', 'DD', 'ttD', 'Db', 'eD', 'hD']
PAIRS = [
    ([[3], [1, 2]], [[1], [1, 2], [[2], 3]]), ([[['ab'], [[1]]]], [[[[[3], [1, 2]]]], []]), ([[], {'b': {}}], [{'a': {}, 'b': 'ac'}]),
    ([1, 2, 3], [1, 5]), ({"a": [1, 2], "b": "x"}, {"a": [1, 3], "c": "y"}), ("abc", "abd"), ([["a", "b"], ["c"]], [["a"], ["b", "c"]]),
    ({"a": {"b": {"c": 1}}}, {"a": {"b": {"c": 2, "d": [1]}}}), ([[1, [2, [3]]]], [[1, [2, [4, 5]]]]), ([], [[1]]), ([[1]], []),
    ({"k": [1, 2, 3, 4]}, {"k": [4, 3, 2, 1]}), ([0, "", None], [None, "", 0]), ([[1, 2], [3, 4]], [[1, 2], [3, 4]]),
    ({"a": 1}, [1]), ([[[1]]], [[[2]]]), (["abc", "de"], ["abd", "e", "f"]), ({"x": ["ab"]}, {"x": ["ac", "ab"]}),
    ({"k1": "the quick brown fox", "k2": "jumps over", "k3": [1, 2, 3]}, {"j1": "lazy dog again?", "j2": "jumps over it", "j3": [1, 2]}),
    ({"a": "xxxxxxxx", "b": "yyyy", "c": [1]}, {"d": "yyyy", "e": "xxxxxxx", "f": [1, 2]}),
    ([{"p": "abc", "q": "de"}, {"r": 1}], [{"s": "abd", "t": "e"}, {"r": 2, "u": 3}]),
    # a list whose last differing element is a mapping with unmatched keys (sub-edit still loose when the matrix completes)
    ([[], {"a": "ab", "c": 1}], ["ab", {"bb": 1, "c": None}]), ([1, {"k": "xyz", "m": [1, 2]}], [{"j": "xyw", "m": [1, 3]}, 2]),
    # other front ends: the plist wrapper (EditCollection), XML elements (XMLElementEdit), CSV tables
    (('plist', {"a": [1, 2], "b": {"c": "x"}}), ('plist', {"a": [1, 3], "d": {"c": "y", "e": []}})),
    (('plist', [1, [2, 3]]), ('plist', {"k": [2, 3]})), (('plist', []), ('plist', "s")),
    (('xml', ('r', {'a': '1'}, 't', (('b', {}, 'x', ()), ('c', {'k': 'v'}, None, ())))), ('xml', ('r', {'a': '2'}, None, (('b', {}, 'y', ()), ('d', {}, None, ()), ('c', {}, None, ()))))),
    (('xml', ('a', {}, None, ())), ('xml', ('a', {'x': '1'}, 'txt', (('a', {}, None, ()),)))),
    (('csv', [['a', 'b'], ['c', '']]), ('csv', [['a', 'x', 'b'], ['c']])),
]


def witnesses(func_result, ob, repo_root, tier):
    """Concrete replay of a typestate failure: drive EditDistance through operation sequences."""
    out = []
    seqs = [s for n in range(1, 5) for s in itertools.product('tbce', repeat=n)]
    for (a, b) in PAIRS[:6]:
        for quiet in (False, True):
            for s in seqs:
                f = _drive((a, b, gt.OPTION_COMBOS[0], ''.join(s), quiet))
                if f:
                    out.append(f[0])
                    return out
    return out


def replay(entry, repo_root):
    r = entry.get('replay') or {}
    if r.get('kind') == 'status':
        f = _status_job(dict(r['case'], repo=repo_root))
        return f[0]['what'] if f else None
    if r.get('kind') == 'ops':
        f = _drive((r['a'], r['b'], r['opt'], r['ops'], r['quiet']))
        return f[0]['what'] if f else None
    return None


def _status_job(case):
    """The script the real command prints is the same with the status / progress output on (the default), with --no-status
    and with --quiet - also for text with carriage returns, CR LF line ends and the other Unicode line separators (the
    status writer re-assembles the rendering line by line).  Reuses C14's subprocess case."""
    import props.C14 as C14
    r = C14._run_status_case(case)
    if not r:
        return []
    r['class'] = 'c05-status-setting-changes-script' if r['class'] == 'c14-status-setting-changes-output' else 'c05-' + r['class'][4:]
    r['replay'] = {'kind': 'status', 'case': {k: v for k, v in case.items() if k != 'repo'}}
    return [r]


def _script(edit):
    from graphtage.tree import CompoundEdit
    if isinstance(edit, CompoundEdit):
        return (type(edit).__name__, tuple(_script(e) for e in edit.edits()))
    b = edit.bounds()
    # (structural description, not repr(): PLISTNode has no __repr__ and would show its address)
    def desc(n):
        try:
            return repr(gt.snapshot(n)) if n is not None else 'None'
        except Exception:
            return repr(n)
    return (type(edit).__name__, desc(edit.from_node), desc(getattr(edit, 'to_node', None)), b.lower_bound, b.upper_bound)


def _finish(e):
    n = 0
    while e.tighten_bounds():
        n += 1
        if n > 100000:
            raise RuntimeError('no convergence')
    b = e.bounds()
    return (b.lower_bound, b.upper_bound), _script(e)


def _set_quiet(q):
    import graphtage.levenshtein as lv
    import graphtage.tree as tr
    import graphtage.printer as pr
    for p in {id(x): x for x in (lv.DEFAULT_PRINTER, tr.DEFAULT_PRINTER, pr.DEFAULT_PRINTER)}.values():
        p.quiet = q


def _drive(job):
    a, b, opt, ops, quiet = job
    from graphtage.tree import CompoundEdit
    fails = []
    try:
        _set_quiet(False)
        ref = _finish(gt.build_any(a, opt)[0].edits(gt.build_any(b, opt)[0]))
    except Exception as ex:
        return [{'what': f"canonical order raised {type(ex).__name__}: {ex} [{a!r} -> {b!r}]", 'class': f'c05-exception:{type(ex).__name__}',
                 'input': {'a': a, 'b': b, 'opt': opt, 'ops': '', 'quiet': False},
                 'replay': {'kind': 'ops', 'a': a, 'b': b, 'opt': opt, 'ops': '', 'quiet': False}}]
    try:
        _set_quiet(quiet)
        e = gt.build_any(a, opt)[0].edits(gt.build_any(b, opt)[0])
        loose_listing = False
        for op in ops:
            if op == 'D':
                while e.valid and not e.is_complete() and e.tighten_bounds():
                    pass
                if isinstance(e, CompoundEdit):
                    subs = list(e.edits())
                    if type(e).__name__ == 'EditDistance' and any(not x.bounds().definitive() for x in subs):
                        loose_listing = True
            elif op == 'b':
                e.bounds()
            elif op == 't':
                e.tighten_bounds()
            elif op == 'c':
                e.is_complete()
            elif op == 'v':
                _ = e.valid
            elif op == 'e':
                if isinstance(e, CompoundEdit):
                    subs = list(e.edits())
                    if type(e).__name__ == 'EditDistance' and any(not x.bounds().definitive() for x in subs):
                        loose_listing = True
            elif op == 'h':
                e.has_non_zero_cost()
            # whichever operation did it: has the list edit frozen its script (matrix freed) while a listed sub-edit is
            # still loose?  (bounds() / has_non_zero_cost() list the script too once the matrix is complete)
            if not loose_listing and type(e).__name__ == 'EditDistance' and getattr(e, 'edit_matrix', 0) is None:
                if any(not x.bounds().definitive() for x in e.edits()):
                    loose_listing = True
        got = _finish(e)
        if got[0] != ref[0]:
            fails.append({'what': f"final cost {got[0]} after operations {ops!r} (quiet={quiet}) differs from {ref[0]} "
                                  f"[{a!r} -> {b!r}]",
                          'class': 'c05-cost-depends-on-order' + (':editdistance-listed-before-subedits-definitive' if loose_listing else '')})
        elif got[1] != ref[1]:
            fails.append({'what': f"script after operations {ops!r} (quiet={quiet}) differs from the canonical one "
                                  f"[{a!r} -> {b!r}]: {got[1]!r} vs {ref[1]!r}", 'class': 'c05-script-depends-on-order'})
    except Exception as ex:
        fails.append({'what': f"{type(ex).__name__}: {ex} after operations {ops!r} (quiet={quiet}) [{a!r} -> {b!r}]",
                      'class': f'c05-exception:{type(ex).__name__}'})
    finally:
        _set_quiet(False)
    for f in fails:
        f['input'] = {'a': a, 'b': b, 'opt': opt, 'ops': ops, 'quiet': quiet}
        f['replay'] = {'kind': 'ops', 'a': a, 'b': b, 'opt': opt, 'ops': ops, 'quiet': quiet}
    return fails


def _print_job(job):
    """diff() and rendering under quiet on/off and colour on/off: same cost, no exception."""
    a, b, opt = job
    import io
    from graphtage.printer import Printer
    from graphtage import json as gj
    fails = []
    costs = set()
    for quiet in (False, True):
        for color in (False, True):
            try:
                _set_quiet(quiet)
                d = gt.build(a, opt).diff(gt.build(b, opt))
                costs.add(d.edited_cost())
                buf = gt._KeepOpen()
                p = Printer(buf, ansi_color=color, quiet=True)
                gj.JSONFormatter.DEFAULT_INSTANCE.print(p, d)
            except Exception as ex:
                fails.append({'what': f"diff/print raised {type(ex).__name__}: {ex} (quiet={quiet}, colour={color}) [{a!r} -> {b!r}]",
                              'class': f'c05-exception:{type(ex).__name__}'})
            finally:
                _set_quiet(False)
                if color:
                    # Printer(ansi_color=True) calls colorama.init() which wraps sys.stdout/stderr once more per printer;
                    # thousands of printers in one process are a harness artefact, so undo the wrapping here
                    import colorama
                    colorama.deinit()
    if len(costs) > 1:
        fails.append({'what': f"cost depends on status/colour settings: {sorted(costs)} [{a!r} -> {b!r}]", 'class': 'c05-cost-depends-on-settings'})
    for f in fails:
        f['input'] = {'a': a, 'b': b, 'opt': opt}
        f['replay'] = {'kind': 'ops', 'a': a, 'b': b, 'opt': opt, 'ops': '', 'quiet': True}
    return fails


def bounded(tier, seed, repo_root):
    rnd = random.Random(seed)
    L = 3 if tier == 'quick' else 4
    seqs = [''.join(s) for n in range(0, L + 1) for s in itertools.product(OPS, repeat=n)]
    longer = [''.join(rnd.choice(OPS) for _ in range(rnd.randint(L + 1, 8))) for _ in range(150 if tier == 'quick' else 1500)]
    jobs = []
    for (a, b) in PAIRS:
        for s in seqs + longer:
            jobs.append((a, b, gt.OPTION_COMBOS[rnd.randrange(9)], s, rnd.random() < 0.5))
        for s in DIFF_SEQS:
            for o in gt.OPTION_COMBOS:
                jobs.append((a, b, o, s, False))
    res = pmap(_drive, jobs, repo_root, job_timeout=60, on_timeout=timeout_failure('C05'))
    fails = [f for fs in res for f in fs]
    from vlib import docs as D
    docs = D.enum_docs(4, atoms=[1, "ab", None], keys=['a', 'b'])
    pj = [(rnd.choice(docs), rnd.choice(docs), gt.OPTION_COMBOS[rnd.randrange(9)]) for _ in range(1500 if tier == 'quick' else 15000)]
    pj += [(a, b, o) for (a, b) in PAIRS for o in gt.OPTION_COMBOS]
    for fs in pmap(_print_job, pj, repo_root, job_timeout=60, on_timeout=timeout_failure('C05')):
        fails.extend(fs)
    sc = [{'ft': ft, 'fmt': fmt, 'same': same, 'repo': repo_root} for ft in ('json', 'yaml', 'json-sep', 'yaml-sep', 'xml-sep', 'csv-sep')
          for fmt in (None, 'yaml', 'json') for same in (False, True)]
    for fs in pmap(_status_job, sc, repo_root, chunksize=1, job_timeout=400, on_timeout=timeout_failure('C05')):
        fails.extend(fs)
    return [{
        'name': 'C05.interleavings', 'bound': f"{len(PAIRS)} nested document pairs x all operation sequences over {OPS} up to "
        f"length {L} ({len(seqs)}) + {len(longer)} seeded longer ones, random option combination and quiet flag, + the diff()-style "
        f"driving loop (tighten until is_complete(), then list) in {len(DIFF_SEQS)} combinations x 9 options; "
        f"{len(pj)} pairs rendered under quiet x colour; {len(sc)} subprocess runs of the real command under status on / --no-status / --quiet (documents with CR, CR LF and Unicode line separators)",
        'evaluations': len(jobs) + len(pj) * 4, 'distinct_nontrivial': len({(repr(j[0]), repr(j[1]), j[3]) for j in jobs if j[3]}),
        'exhaustive': False,
        'rule': 'drive the edit returned by TreeNode.edits with the operation sequence, then refine to fix-point: final cost '
                'and flattened script equal the canonical driving order; no exception; non-trivial = non-empty sequence',
        'failures': fails, 'samples': [{'a': j[0], 'b': j[1], 'ops': j[3], 'quiet': j[4]} for j in jobs[700:703]],
    }]
