"""C06 - both documents can be read back from the rendered diff."""
import json
import random
import re

from vlib import docs as D
from vlib import gt
from vlib.par import pmap, timeout_failure

PROPERTY = 'C06'
LEVEL = 'other'
TARGETS = [('strings', 'graphtage.StringFormatter.print_StringNode'), ('levenshtein_distance', 'levenshtein.levenshtein_distance'),
           ('nodes', 'graphtage.LeafNode.edits'),
           ('sequences', 'sequences.FixedLengthSequenceEdit.edits'), ('editdistance', 'levenshtein.EditDistance.edits')]
TRUSTED = ['the monitoring printer reads the live ANSI context stack (background RED = removed, GREEN = inserted) instead of '
           'parsing combining characters out of the text', 'json.loads as the oracle for the reconstructed texts']
ASSUMPTIONS = ["' -> ' written under the cyan foreground and list/dict separators are treated as separator placement"]
EXPLANATION = (
    "Deductive (supporting lemmas only): the scripts that the sequence formatters walk cover both containers exactly once "
    "in order (C01 contracts of FixedLengthSequenceEdit.edits / EditDistance.edits) and an unedited string is emitted as "
    "quote, escapes in order, quote (C12). The reflective formatter dispatch (GraphtageFormatter.print / get_formatter), "
    "SequenceFormatter.print_SequenceNode's delimiter marking and print_StringEdit's interplay with the printer's mark "
    "state are out of the VC generator's reach: the property is decided by a bounded stand-in - a monitoring Printer "
    "records every written chunk with the live mark state; for all JSON document pairs in a small scope over an atom set "
    "with quotes, arrows, tildes, pluses, control and non-ASCII characters x dictionary strategies x join layouts, the "
    "text minus inserted chunks parses to the first document and the text minus removed chunks to the second; marks "
    "appear exactly when the documents differ.")


def _mk_printer(join):
    from graphtage.printer import Printer, ANSI_CONTEXT_STACK, Back, Fore

    class Sink:
        def write(self, s):
            return len(s)

        def isatty(self):
            return False

        def flush(self):
            pass

        def close(self):
            pass

    class Mon(Printer):
        def __init__(self):
            super().__init__(Sink(), ansi_color=True, quiet=True, options={'join_lists': join, 'join_dict_items': join})
            self.chunks = []

        def write(self, s):
            state, fore = None, None
            for ctx in ANSI_CONTEXT_STACK[self]:
                b = ctx.back
                if b == Back.RED:
                    state = 'removed'
                elif b == Back.GREEN:
                    state = 'inserted'
                fore = ctx.fore
            if s == ' -> ' and fore == Fore.CYAN and state is None:
                state = 'arrow'
            self.chunks.append((s, state))
            return super().write(s)
    return Mon()


def _repair(text):
    """Separator placement aside: drop doubled / leading / trailing commas (outside strings)."""
    out, in_str, esc = [], False, False
    for ch in text:
        if in_str:
            out.append(ch)
            if esc:
                esc = False
            elif ch == '\\':
                esc = True
            elif ch == '"':
                in_str = False
            continue
        if ch == '"':
            in_str = True
            out.append(ch)
        elif ch == ',':
            j = len(out) - 1
            while j >= 0 and out[j] in ' \n\t':
                j -= 1
            if j < 0 or out[j] in '[{,':
                continue
            out.append(ch)
        elif ch in ']}':
            j = len(out) - 1
            while j >= 0 and out[j] in ' \n\t':
                j -= 1
            if j >= 0 and out[j] == ',':
                del out[j]
            out.append(ch)
        else:
            out.append(ch)
    return ''.join(out)


def _job(job):
    a, b, opt, join = job
    from graphtage import json as gj
    import colorama
    fails = []
    try:
        d = gt.build(a, opt).diff(gt.build(b, opt))
        p = _mk_printer(join)
        try:
            gj.JSONFormatter.DEFAULT_INSTANCE.print(p, d)
        finally:
            colorama.deinit()
        chunks = p.chunks
        first = _repair(''.join(s for s, st in chunks if st not in ('inserted', 'arrow')))
        second = _repair(''.join(s for s, st in chunks if st not in ('removed', 'arrow')))
        marked = any(st in ('removed', 'inserted') for _, st in chunks)
        # signature of the known defect: a replacement arrow printed while the "removed" background is still active,
        # i.e. the source side of a Replace was itself rendered as a replacement (mapping replaced inside a list)
        nested = any(s == ' -> ' and st in ('removed', 'inserted') for s, st in chunks)
        eq = D.data_equal(a, b)
        for name, text, doc in (('first', first, a), ('second', second, b)):
            try:
                got = json.loads(text)
                ok = D.data_equal(got, doc)
            except ValueError:
                got, ok = None, False
            if not ok:
                fails.append({'what': f"text without the {'inserted' if name == 'first' else 'removed'} parts is {text!r}, which does not parse "
                                      f"to the {name} document {doc!r} (pair {a!r} -> {b!r})",
                              'class': f'c06-{name}-not-recoverable' + (':replacement-printed-twice' if nested else '')})
        if eq and marked:
            fails.append({'what': f"equal documents {a!r} are rendered with change marks", 'class': 'c06-marks-on-equal'})
        if not eq and not marked:
            fails.append({'what': f"different documents {a!r} -> {b!r} are rendered without any change mark", 'class': 'c06-no-marks-on-different'})
    except Exception as ex:
        fails.append({'what': f"{type(ex).__name__}: {ex} (pair {a!r} -> {b!r})", 'class': f'c06-exception:{type(ex).__name__}'})
    for f in fails:
        f['what'] += f" opt={opt} join={join}"
        f['input'] = {'a': a, 'b': b, 'opt': opt, 'join': join}
        f['replay'] = {'kind': 'pair', 'a': a, 'b': b, 'opt': opt, 'join': join}
    return fails


def witnesses(func_result, ob, repo_root, tier):
    return []


def replay(entry, repo_root):
    r = entry.get('replay') or {}
    if r.get('kind') == 'pair':
        f = _job((r['a'], r['b'], r['opt'], r['join']))
        return f[0]['what'] if f else None
    return None


def bounded(tier, seed, repo_root):
    atoms = [0, 12, "", "ab", 'q"t', "a -> b", "~~x++", "é\n", None, True]
    docs = D.enum_docs(3 if tier == 'quick' else 4, atoms=atoms, keys=['a', 'b'])
    budget = 40000 if tier == 'quick' else 400000
    pairs, exhaustive = D.sample_pairs(docs, budget, seed)
    rnd = random.Random(seed)
    jobs = [(a, b, gt.OPTION_COMBOS[i % 9], bool(i % 2)) for i, (a, b) in enumerate(pairs)]
    base = [["abc", "abd"], ["abd", "xbc", 1], {"a": "hello", "b": [1, 2]}, {"a": "hallo", "c": [2, 1]}, [1, 2, 3, 4], [1, 3], [[1], [2]], [[2]],
            {"k": {"x": 1, "y": "s"}}, {"k": {"x": 2}}, "plain", "pla-in", [], {}]
    for a in base:
        for b in base:
            for o in gt.OPTION_COMBOS[::3]:
                jobs.append((a, b, o, False))
    for a, b in D.hash_collision_pairs():      # distinct values with equal Python hashes (-1 / -2, n / n + 2**61 - 1)
        for o in gt.OPTION_COMBOS[::2]:
            jobs.append((a, b, o, False))
    fails = [f for fs in pmap(_job, jobs, repo_root, job_timeout=60, on_timeout=timeout_failure('C06')) for f in fs]
    return [{
        'name': 'C06.monitoring-printer', 'bound': f"JSON documents <= {3 if tier == 'quick' else 4} nodes over {atoms!r} "
        f"({'all' if exhaustive else 'seeded sample of'} {len(pairs)} pairs; options and join layout cycling) + {len(base)}^2 structured pairs",
        'evaluations': len(jobs), 'distinct_nontrivial': len({(D.key(j[0]), D.key(j[1])) for j in jobs if not D.data_equal(j[0], j[1])}),
        'exhaustive': False,
        'rule': 'pair x options x layout -> JSON rendering on a monitoring Printer(ansi_color=True): chunks not marked inserted parse '
                '(after separator repair) to the first document, chunks not marked removed to the second; marked chunk iff documents differ',
        'failures': fails, 'samples': [{'a': j[0], 'b': j[1]} for j in jobs[100:103]],
    }]
