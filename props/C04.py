"""C04 - cost bounds only tighten, stay sound, and converge."""
import random

from vlib import docs as D
from vlib import gt
from vlib.par import pmap

PROPERTY = 'C04'
LEVEL = 'other'
TARGETS = [('bounded', t) for t in (
    'bounds.Range.dominates', 'bounds.Range.definitive', 'bounds.Range.__eq__', 'bounds.Range.__lt__',
    'bounds.Range.__contains__', 'bounds.Range.__add__', 'bounds.Range.finite',
    'edits.AbstractEdit.bounds', 'edits.ConstantCostEdit.tighten_bounds',
    'graphtage.KeyValuePairEdit.bounds', 'graphtage.KeyValuePairEdit.tighten_bounds',
    'sequences.FixedLengthSequenceEdit.tighten_bounds', 'bounds.repeat_until_tightened.wrapper',
    'tree.Edit.has_non_zero_cost')] + [('xmledit', 'xml.XMLElementEdit.bounds'), ('xmledit', 'xml.XMLElementEdit.tighten_bounds'),
                                       ('multiset_tighten', 'multiset.MultiSetEdit.tighten_bounds')]
TRUSTED = [
    'protocol B (never widens, sound, progress strict, False only when definitive, fuel decreases) is ASSUMED for '
    'sub-objects of unknown class and proved for the listed implementers',
    'distinct sub-edits have disjoint mutable state (no aliasing)',
    'paper step: a sum of pointwise-monotone terms is monotone, strictly if one term is (lifts the per-child form of '
    'FixedLengthSequenceEdit to its summed bounds)',
]
ASSUMPTIONS = ['ranges are finite (the infinite case occurs only before the first candidate of a search)']
EXPLANATION = (
    "Deductive: the Bounded protocol (no widening, soundness w.r.t. a ghost final cost, strict progress on True, "
    "definitive on False, decreasing termination measure) is discharged from the real source for Range arithmetic, "
    "constant-cost edits, KeyValuePairEdit, FixedLengthSequenceEdit and MultiSetEdit.tighten_bounds (per-child form), the repeat_until_tightened "
    "wrapper and Edit.has_non_zero_cost, each assuming the protocol for its sub-objects. Bounded stand-in (labelled "
    "bounded, never counted as discharged): the same protocol installed as a run-time monitor on every class defining "
    "tighten_bounds (EditDistance, EditCollection, WeightedBipartiteMatcher, MultiSetEdit, IterativeTighteningSearch "
    "... are out of the VC generator's reach for this property), driven over all small document pairs x 9 option "
    "combinations to fix-point with retrospective soundness and a step budget.")
STEP_BUDGET = 20000


def witnesses(func_result, ob, repo_root, tier):
    """Concrete inputs for an obligation of MultiSetEdit.tighten_bounds that is not discharged: mappings / multisets whose
    automatically matched pairs need several refinement steps, driven step by step under the monitor."""
    if 'MultiSetEdit' not in func_result['function']:
        return []
    docs = [{"a": "abcd", "b": [1, 2, 3], "c": {"x": "foo"}}, {"a": "abXd", "b": [1, 3, 4], "c": {"x": "fo", "y": 1}},
            {"a": [[1, 2], "pq"], "b": "zzzz"}, {"a": [[1], "pqr", 3], "b": "zz", "d": None}, {"k": {"a": "abcd", "b": "efgh"}},
            {"k": {"a": "abce", "b": "efg"}}]
    out = []
    for a in docs:
        for b in docs:
            for opt in (gt.OPTION_COMBOS[0], gt.OPTION_COMBOS[3]):
                _, fails, _ = _run_pair((a, b, opt))
                if fails:
                    return fails[:1]
    return out


def replay(entry, repo_root):
    r = entry.get('replay') or {}
    if r.get('kind') == 'pair':
        _, fails, _ = _run_pair((r['a'], r['b'], r['opt']))
        return fails[0]['what'] if fails else None
    return None


def _run_pair(job):
    from vlib.par import with_timeout, JobTimeout
    try:
        return with_timeout(_run_pair_inner, job, 120)
    except JobTimeout:
        a, b, opt = job
        return 0, [{'what': f"refinement did not finish within 120s for {str(a)[:80]!r} vs {str(b)[:80]!r}", 'class': 'c04-timeout',
                    'input': {'a': str(a)[:200], 'b': str(b)[:200], 'opt': opt}, 'replay': None}], []


def _run_pair_inner(job):
    a, b, opt = job
    from vlib.monitor import Monitor
    mon = Monitor().install()
    fails = []
    try:
        (ta, _), (tb, _) = gt.build_any(a, opt), gt.build_any(b, opt)
        e = ta.edits(tb)
        steps = 0
        while e.tighten_bounds():
            steps += 1
            if steps > STEP_BUDGET:
                fails.append({'what': f"tighten_bounds did not converge within {STEP_BUDGET} steps for {a!r} vs {b!r}",
                              'class': 'c04-no-convergence'})
                break
        fb = e.bounds()
        if not fails and fb.lower_bound != fb.upper_bound and getattr(e, 'valid', True):
            fails.append({'what': f"top-level edit reports no progress with non-definitive bounds {fb} for {a!r} vs {b!r}",
                          'class': 'c04-false-not-definitive'})
        if not getattr(e, 'valid', True):
            fails.append({'what': f"the top-level edit of {a!r} vs {b!r} invalidated itself: bounds {fb} (an edit returned by "
                                  f"TreeNode.edits for two documents is never impossible)", 'class': 'c04-top-level-invalidated'})
        for name, before, r, after in mon.invalidated:
            fails.append({'what': f"{name} invalidated itself during refinement: bounds {before} -> {after} (returned {r}) for "
                                  f"{a!r} vs {b!r} opt={opt}", 'class': f'c04-invalidated:{name}'})
        for ev in mon.events + mon.soundness_events():
            kind, cls, before, r, after = ev
            fails.append({'what': f"{cls}.tighten_bounds: {kind}: bounds {before} -> {after} (returned {r}) for {a!r} vs {b!r} opt={opt}",
                          'class': f'c04-{kind}:{cls}'})
    except Exception as ex:
        fails.append({'what': f"{type(ex).__name__}: {ex} while refining {a!r} vs {b!r} opt={opt}",
                      'class': f'c04-exception:{type(ex).__name__}'})
    finally:
        mon.uninstall()
    for f in fails:
        f['input'] = {'a': a, 'b': b, 'opt': opt}
        f['replay'] = {'kind': 'pair', 'a': a, 'b': b, 'opt': opt}
    return mon.calls, fails, sorted(set(mon.classes))


def bounded(tier, seed, repo_root):
    atoms = [0, 12, "", "ab", "abc", None]
    docs = D.enum_docs(4 if tier == 'quick' else 5, atoms=atoms, keys=['a', 'b'], max_width=3)
    budget = 40000 if tier == 'quick' else 400000
    pairs, exhaustive = D.sample_pairs(docs, budget, seed)
    jobs = [(a, b, gt.OPTION_COMBOS[i % 9]) for i, (a, b) in enumerate(pairs)]
    # large sizes: accumulated path costs beyond 2**16 (numpy cell widths are outside the VC generator: integers there
    # are mathematical)
    # (long strings are only ever compared with short scalars here: a string-vs-string pair would build a 30000^2 matrix)
    big = ["x" * 30000, "y" * 30000, "z" * 30001, "w" * 70000]
    large = [([big[0], big[1], big[2]], [1, 2]), ([1, 2], [big[0], big[1], big[2]]), ([big[3], 1], [2]),
             ({"a": [big[0], big[1], big[2]]}, {"a": [7]}), ([big[0], big[1], big[2], big[3]], [5, 6, 7])]
    jobs += [(a, b, gt.OPTION_COMBOS[0]) for a, b in large]
    # other front ends: the plist wrapper (a bare EditCollection around the root comparison; zero-size roots such as an empty
    # array / dict / string make its constant ceiling tight), XML elements, CSV tables
    rnd = random.Random(seed)
    roots = [[], {}, "", "graphtage", 0, [1], {"a": 1}, [[]], {"a": []}, ["", ""], 3.5, True]
    jobs += [(('plist', a), ('plist', b), o) for a in roots for b in roots for o in gt.OPTION_COMBOS[::4]]
    pdocs = [d for d in docs if 'None' not in repr(d)]
    jobs += [(('plist', rnd.choice(pdocs)), ('plist', rnd.choice(pdocs)), gt.OPTION_COMBOS[rnd.randrange(9)])
             for _ in range(1000 if tier == 'quick' else 10000)]
    # larger mapping roots with differing key sets and nested container values (the wrapped MultiSetEdit stays looser than
    # the collection's constant ceiling for several steps)
    big = [{"name": "pkg", "version": "1.0.2", "deps": {"a": "1", "b": ["x", "y"]}, "files": ["a.py", "b.py", "c.py"]},
           {"title": "pkg2", "version": "1.0.3", "requires": {"a": "2", "c": ["x", "z", "w"]}, "files": ["a.py", "d.py"]},
           {"CFBundleName": "App", "CFBundleVersion": "12", "LSEnvironment": {"PATH": "/usr/bin", "LANG": "C"},
            "Icons": [{"size": 16, "file": "i16.png"}, {"size": 32, "file": "i32.png"}]},
           {"BundleName": "App2", "CFBundleVersion": "13", "Environment": {"PATH": "/bin", "TZ": "UTC", "LANG": "C"},
            "Icons": [{"size": 16, "file": "j16.png"}], "Extra": [[1, 2], [3]]},
           {"k1": {"k2": {"k3": [1, 2, 3], "k4": "v"}}, "l": [[1], [2, 3]]}, {"m1": {"k2": {"k5": [1, 2], "k4": "w"}}, "l": [[1, 2], [3]]}]
    jobs += [(('plist', a), ('plist', b), o) for a in big for b in big if a is not b for o in gt.OPTION_COMBOS[::2]]
    jobs += [(a, b, o) for a in big for b in big if a is not b for o in gt.OPTION_COMBOS[::4]]
    # (a plist document compared with a bare tree: PLISTNode.edits falls through to root.edits(node))
    jobs += [(('plist', a), b, gt.OPTION_COMBOS[0]) for a in roots for b in roots]
    xs, cs = gt.xml_specs(), gt.csv_specs()
    jobs += [(('xml', rnd.choice(xs)), ('xml', rnd.choice(xs)), gt.OPTION_COMBOS[rnd.randrange(9)]) for _ in range(600 if tier == 'quick' else 6000)]
    jobs += [(('csv', rnd.choice(cs)), ('csv', rnd.choice(cs)), gt.OPTION_COMBOS[rnd.randrange(9)]) for _ in range(300 if tier == 'quick' else 3000)]
    # data-class nodes (Python sources through pydiff.ast_to_tree: assignments, calls, imports, subscripts), whose slots hold any
    # other kind of edit
    ps = gt.pyast_sources()
    jobs += [(('pyast', a), ('pyast', b), o) for a in ps for b in ps if a is not b for o in (gt.OPTION_COMBOS[0], gt.OPTION_COMBOS[4])][::1 if tier != 'quick' else 2]
    res = pmap(_run_pair, jobs, repo_root, skip_result=(0, [], []))
    fails = [f for _, fs, _ in res for f in fs]
    calls = sum(c for c, _, _ in res)
    classes = sorted({c for _, _, cs in res for c in cs})
    nontrivial = sum(1 for c, _, _ in res if c > 0)
    return [{
        'name': 'C04.protocol-monitor', 'bound': f"documents <= {4 if tier == 'quick' else 5} nodes over {atoms!r}; "
        f"{len(pairs)} ordered pairs ({'all' if exhaustive else 'seeded sample'}); option combination cycles through the 9; "
        f"step budget {STEP_BUDGET}; large-size cases, plist wrapper, XML, CSV, and {len(ps)} small Python sources as data-class trees (pairs x 2 options)",
        'evaluations': len(jobs), 'distinct_nontrivial': nontrivial, 'exhaustive': False,
        'monitored_classes': classes, 'monitored_tighten_calls': calls,
        'rule': 'pair x options -> refine the top-level edit to fix-point with the protocol monitor on every class that '
                'defines tighten_bounds; non-trivial = at least one monitored tighten_bounds call',
        'failures': fails, 'samples': [{'a': j[0], 'b': j[1], 'opt': j[2]} for j in jobs[500:503]],
    }]
