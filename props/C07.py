"""C07 - diffing is a pure, deterministic function of its inputs."""
import json
import os
import random
import subprocess
import sys

from vlib import docs as D
from vlib import gt
from vlib.par import pmap, timeout_failure

PROPERTY = 'C07'
LEVEL = 'other'
TARGETS = [('fixedkeydict', 'graphtage.FixedKeyDictNode._child_edits'), ('equality', 'graphtage.KeyValuePairNode.__lt__')]
TRUSTED = ['iterating a set yields an arbitrary permutation (uninterpreted bijection) - stronger than CPython, which only '
           'varies with the hash seed', 'MappingNode.__contains__/__getitem__/__iter__ against a ghost item list',
           'id()-based tie-breaks (BoundedComparator) influence only the order of tightening (C17)']
ASSUMPTIONS = ['dict / HashableCounter iteration is insertion order']
EXPLANATION = (
    "Deductive: FixedKeyDictNode._child_edits is verified with set iteration modelled as an ARBITRARY permutation: its "
    "result sequence must be a function of the insertion orders of the two mappings (same-key pairs in source order, "
    "then removals in source order, then insertions in target order; ghost index lists), so any hash-order dependence "
    "fails a named obligation. Bounded stand-in for the rest of the pipeline: byte-identical stdout and equal exit status "
    "of `python -m graphtage` across PYTHONHASHSEED values x option flags on a corpus with several unshared keys, "
    "repeated in-process calls, and structural snapshots of both input trees before/after diff() and printing.")
CORPUS = [
    ({"alpha": 1, "beta": 2, "gamma": 3, "delta": 4, "epsilon": 5, "zeta": 6}, {"beta": 2, "eta": 7}),
    ({"k1": [1, 2], "k2": {"x": 1, "y": 2, "z": 3}, "k3": "s", "k4": None, "k5": 5}, {"k2": {"y": 2, "w": 0}, "k9": 1}),
    ([{"a": 1, "b": 2, "c": 3, "d": 4}, {"e": 5, "f": 6, "g": 7}], [{"b": 2}, {"h": 1, "e": 5}]),
    ({"one": "1", "two": "2", "three": "3", "four": "4"}, {"five": "5", "six": "6", "seven": "7"}),
    ({"same1": "v1", "same2": "v2", "same3": "v3", "same4": "v4", "same5": "v5", "old": "x"},
     {"same1": "v1", "same2": "v2", "same3": "v3", "same4": "v4", "same5": "v5", "new": "y"}),
    ([{"u": "a", "v": "b", "w": "c", "x": "d", "gone": 1}, ["s1", "s2"]], [{"u": "a", "v": "b", "w": "c", "x": "d", "come": 2}, ["s1", "s3"]]),
    # every key renamed (pairing decided by the matcher from partially tightened string edits) while a sibling entry
    # undergoes the same string change as one candidate pairing: sensitive to anything remembered between comparisons
    ({"x": {"a": "ceedcfehafa", "b": "adedcfehaca"}, "y": "ceedcfehafa"}, {"x": {"c": "adedcfehaca", "d": "adbccfahaca"}, "y": "adbccfahaca"}),
    ({"m": {"p": "the quick brown fox", "q": "jumps over the lazy"}, "n": ["the quick brown fox", "jumps over the lazy"]},
     {"m": {"r": "jumps over the hazy", "s": "the quick brawn fix"}, "n": ["the quick brawn fix", "jumps over the hazy"]}),
]
FLAGSETS = [[], ['-k'], ['--dict-strategy', 'match'], ['-k', '-l'], ['-e', '-k'], ['-d'], ['-k', '-j']]


def _typed_corpus():
    """File pairs of the other input types (bytes, suffix): pickles of objects that become AST / data-class nodes, XML with
    several changed attributes and children, YAML, plist, CSV."""
    import collections
    import pickle
    import plistlib
    import yaml
    od = collections.OrderedDict([("alpha", 1), ("beta", [1, 2]), ("gamma", {"x": "s"})])
    out = []
    out.append(('pickle', pickle.dumps(od), pickle.dumps(collections.Counter({"alpha": 2, "delta": 1, "beta": 3})), '.pkl'))
    out.append(('pickle', pickle.dumps({"k": [1, 2, 3], "m": ("a", "b"), "n": {"p": 1.5, "q": None}}),
                pickle.dumps({"k": [1, 3], "m": ("a", "c", "d"), "o": {"p": 2.5, "r": True}}), '.pkl'))
    out.append(('xml', b'<r a="1" b="2" c="3" d="4"><x k="v" l="w">t</x><y/><z p="q"/></r>',
                b'<r e="1" f="2" c="3"><x m="v" n="w">u</x><w/><z p="s" t="u"/></r>', '.xml'))
    a, b = CORPUS[1]
    out.append(('yaml', yaml.safe_dump(a).encode(), yaml.safe_dump(b).encode(), '.yml'))
    pa = {k: v for k, v in a.items() if v is not None}
    out.append(('plist', plistlib.dumps(pa), plistlib.dumps(b), '.plist'))
    out.append(('csv', b'a,b,c\n1,2,3\nx,y,z\n', b'a,c,d\n1,5,3\nq,y,z\nm,n,o\n', '.csv'))
    return out


def _typed_seed_job(job):
    idx, flags, seeds, repo_root = job
    typ, da, db, suffix = _typed_corpus()[idx]
    tf = gt.TempFiles()
    fails = []
    try:
        pa, pb = tf.write(da, suffix, binary=True), tf.write(db, suffix, binary=True)
        fl = [f'--from-{typ}', f'--to-{typ}'] + flags
        outs = {s: _cli(pa, pb, fl, s, repo_root) for s in seeds}
        ref_seed = seeds[0]
        for s in seeds[1:]:
            if outs[s] != outs[ref_seed]:
                fails.append({'what': f"output of graphtage {' '.join(fl)} on {typ} files differs between PYTHONHASHSEED={ref_seed} and "
                                      f"{s} (exit {outs[ref_seed][0]} vs {outs[s][0]}); first difference near "
                                      f"{_first_diff(outs[ref_seed][1], outs[s][1])!r}",
                              'class': f'c07-hash-seed-dependent-output:{typ}',
                              'input': {'typed': idx, 'flags': flags, 'seeds': [ref_seed, s]},
                              'replay': {'kind': 'typedseed', 'idx': idx, 'flags': flags, 'seeds': [ref_seed, s]}})
                break
    finally:
        tf.cleanup()
    return fails


def _cli(pa, pb, flags, seed, repo_root):
    env = dict(os.environ)
    env['PYTHONHASHSEED'] = str(seed)
    env['PYTHONPATH'] = repo_root + os.pathsep + env.get('PYTHONPATH', '')
    p = subprocess.run([sys.executable, '-m', 'graphtage', pa, pb, '--no-status', '--no-color'] + flags, env=env,
                       capture_output=True, text=True, timeout=120)
    return p.returncode, p.stdout


def _seed_job(job):
    idx, flags, seeds, repo_root = job
    a, b = CORPUS[idx]
    tf = gt.TempFiles()
    fails = []
    try:
        pa, pb = tf.json(a), tf.json(b)
        outs = {}
        for s in seeds:
            outs[s] = _cli(pa, pb, flags, s, repo_root)
        ref_seed = seeds[0]
        for s in seeds[1:]:
            if outs[s] != outs[ref_seed]:
                fails.append({'what': f"output of graphtage {' '.join(flags)} differs between PYTHONHASHSEED={ref_seed} and {s} "
                                      f"for corpus pair {idx} (exit {outs[ref_seed][0]} vs {outs[s][0]}); first difference near "
                                      f"{_first_diff(outs[ref_seed][1], outs[s][1])!r}",
                              'class': 'c07-hash-seed-dependent-output' + (':k' if '-k' in flags else ''),
                              'input': {'pair': idx, 'flags': flags, 'seeds': [ref_seed, s]},
                              'replay': {'kind': 'seed', 'pair': idx, 'flags': flags, 'seeds': [ref_seed, s]}})
                break
    finally:
        tf.cleanup()
    return fails


def _first_diff(x, y):
    for i, (c, d) in enumerate(zip(x, y)):
        if c != d:
            return x[max(0, i - 20):i + 20]
    return x[-20:]


def _purity_job(job):
    a, b, opt = job
    from graphtage.printer import Printer
    import graphtage
    fails = []
    try:
        (ta, fmt), (tb, _) = gt.build_any(a, opt), gt.build_any(b, opt)
        sa, sb = gt.snapshot(ta), gt.snapshot(tb)
        da, db = gt.deep_state(ta), gt.deep_state(tb)
        formatter = graphtage.get_filetype(mime_type={'xml': 'application/xml', 'plist': 'application/x-plist', 'csv': 'text/csv',
                                                      'json': 'application/json'}[fmt]).get_default_formatter()
        outs = []
        for _ in range(3):
            d = ta.diff(tb)
            buf = gt._KeepOpen()
            formatter.print(Printer(buf, ansi_color=False, quiet=True), d)
            outs.append((buf.getvalue(), d.edited_cost()))
        if gt.snapshot(ta) != sa or gt.snapshot(tb) != sb:
            fails.append({'what': f"diff()/printing altered an input tree: {a!r} -> {b!r}", 'class': 'c07-input-mutated'})
        elif gt.deep_state(ta) != da or gt.deep_state(tb) != db:
            fails.append({'what': f"diff()/printing replaced, re-classed or re-annotated node objects of an input tree "
                                  f"(identity-level state differs): {a!r} -> {b!r}", 'class': 'c07-input-mutated:identity'})
        if outs[0] != outs[1] or outs[0] != outs[2]:
            fails.append({'what': f"repeated in-process diffs of the same trees differ: {a!r} -> {b!r}", 'class': 'c07-repeat-differs'})
        # fresh trees of the same documents, after the comparisons above: nothing may be remembered between comparisons
        (ta2, _), (tb2, _) = gt.build_any(a, opt), gt.build_any(b, opt)
        d = ta2.diff(tb2)
        buf = gt._KeepOpen()
        formatter.print(Printer(buf, ansi_color=False, quiet=True), d)
        if (buf.getvalue(), d.edited_cost()) != outs[0]:
            fails.append({'what': f"a comparison of freshly built trees of the same documents differs from the first one in this process: "
                                  f"{a!r} -> {b!r}", 'class': 'c07-history-dependent'})
    except Exception as ex:
        fails.append({'what': f"{type(ex).__name__}: {ex} [{a!r} -> {b!r}]", 'class': f'c07-exception:{type(ex).__name__}'})
    for f in fails:
        f['input'] = {'a': a, 'b': b, 'opt': opt}
        f['replay'] = {'kind': 'purity', 'a': a, 'b': b, 'opt': opt}
    return fails


SEQ_PAIRS = [
    ({"name": "hello world"}, {"name": "hello there"}),                                    # one-line string edit
    ({"text": "line one\nline two\n"}, {"text": "line one\nline 2\nmore\n"}),             # edit inside a multi-line string
    ({"k": [1, 2, 3]}, {"k": [1, 3, 4]}),
    ({"a": "x", "c": [1]}, {"b": "x", "c": []}),                                           # renamed key, emptied list
    ({"v": 1, "w": "1"}, {"v": "1", "w": 1}),                                              # kinds swapped
    (["abc", "def"], ["abd", "def", "ghi"]),
    ({"n": None, "t": True}, {"n": 0, "t": False}),
    ({"s": "", "q": "it's \"q\""}, {"s": "new\nlines", "q": "its q"}),                       # empty -> multi-line, quotes
    ({"deep": {"er": {"x": "end"}}}, {"deep": {"er": {"x": "ends", "y": [[]]}}}),
]


def _render(fmt, pair, color=False):
    import graphtage
    from graphtage import json as gj
    from graphtage.printer import Printer
    d = gj.build_tree(pair[0]).diff(gj.build_tree(pair[1]))
    buf = gt._KeepOpen()
    pr = Printer(buf, ansi_color=color, quiet=True)
    graphtage.FILETYPES_BY_TYPENAME[fmt].get_default_formatter().print(pr, d)
    if color:
        import colorama
        colorama.deinit()
    return buf.getvalue()


def _sequence_job(job):
    """In a process of its own: render pair A, then each other pair B (plain and in colour) followed by A again, with the same
    output format: every rendering of A is identical - nothing about B is remembered by the formatter / printer singletons."""
    fmt, ia = job
    a = SEQ_PAIRS[ia]
    try:
        first = _render(fmt, a)
    except Exception:
        return []           # (whether this format can render such a tree at all is C13's business)
    fails = []
    try:
        for ib, b in enumerate(SEQ_PAIRS):
            if ib == ia or fails:
                continue
            for color in (False, True):
                try:
                    _render(fmt, b, color)
                except Exception:
                    pass
                again = _render(fmt, a)
                if again != first:
                    fails.append({'what': f"{fmt} rendering of {a[0]!r} -> {a[1]!r} is {first!r} in a fresh process but {again!r} after "
                                          f"{b[0]!r} -> {b[1]!r} was rendered{' in colour' if color else ''} in the same process",
                                  'class': f'c07-output-depends-on-history:{fmt}'})
                    break
    except Exception as ex:
        fails.append({'what': f"{type(ex).__name__}: {ex} rendering {a!r} as {fmt} after other documents", 'class': f'c07-exception:{type(ex).__name__}'})
    for f in fails:
        f['input'] = {'fmt': fmt, 'pair': list(a)}
        f['replay'] = {'kind': 'sequence', 'job': list(job)}
    return fails


def witnesses(func_result, ob, repo_root, tier):
    seeds = list(range(0, 6))
    for idx in range(len(CORPUS)):
        f = _seed_job((idx, ['-k'], seeds, repo_root))
        if f:
            return f[:1]
    return []


def replay(entry, repo_root):
    r = entry.get('replay') or {}
    if r.get('kind') == 'seed':
        f = _seed_job((r['pair'], r['flags'], r['seeds'], repo_root))
        return f[0]['what'] if f else None
    if r.get('kind') == 'typedseed':
        f = _typed_seed_job((r['idx'], r['flags'], r['seeds'], repo_root))
        return f[0]['what'] if f else None
    if r.get('kind') == 'sequence':
        f = [x for fs in pmap(_sequence_job, [tuple(r['job'])], repo_root, fresh=True) for x in fs]      # (own process)
        return f[0]['what'] if f else None
    if r.get('kind') == 'purity':
        f = _purity_job((r['a'], r['b'], r['opt']))
        return f[0]['what'] if f else None
    return None


def bounded(tier, seed, repo_root):
    seeds = list(range(0, 6 if tier == 'quick' else 32))
    jobs = [(i, fl, seeds, repo_root) for i in range(len(CORPUS)) for fl in FLAGSETS]
    fails = [f for fs in pmap(_seed_job, jobs, repo_root, chunksize=1, job_timeout=400, on_timeout=timeout_failure('C07')) for f in fs]
    tjobs = [(i, fl, seeds, repo_root) for i in range(len(_typed_corpus())) for fl in ([], ['-e'], ['-d'])]
    fails += [f for fs in pmap(_typed_seed_job, tjobs, repo_root, chunksize=1, job_timeout=400, on_timeout=timeout_failure('C07')) for f in fs]
    rnd = random.Random(seed)
    docs = D.enum_docs(4, atoms=[0, "ab", None], keys=['a', 'b', 'c'])
    pj = [(rnd.choice(docs), rnd.choice(docs), gt.OPTION_COMBOS[rnd.randrange(9)]) for _ in range(3000 if tier == 'quick' else 30000)]
    pj += [(a, b, o) for (a, b) in CORPUS for o in gt.OPTION_COMBOS]
    # containers that do not override TreeNode.editable_dict (XML elements, the plist wrapper, pydiff objects) and CSV
    xs, cs = gt.xml_specs(), gt.csv_specs()
    n_other = 200 if tier == 'quick' else 2000
    pj += [(('xml', rnd.choice(xs)), ('xml', rnd.choice(xs)), gt.OPTION_COMBOS[rnd.randrange(9)]) for _ in range(n_other)]
    pj += [(('csv', rnd.choice(cs)), ('csv', rnd.choice(cs)), gt.OPTION_COMBOS[rnd.randrange(9)]) for _ in range(n_other)]
    pdocs = [d for d in docs if 'None' not in repr(d)]       # plist has no null (C13 finding plist-null)
    pj += [(('plist', rnd.choice(pdocs)), ('plist', rnd.choice(pdocs)), gt.OPTION_COMBOS[rnd.randrange(9)]) for _ in range(n_other)]
    pj += [(('pyobj', rnd.choice(docs)), ('pyobj', rnd.choice(docs)), gt.OPTION_COMBOS[rnd.randrange(9)]) for _ in range(n_other)]
    fails += [f for fs in pmap(_purity_job, pj, repo_root, job_timeout=60, on_timeout=timeout_failure('C07')) for f in fs]
    sj = [(fmt, i) for fmt in ('json', 'json5', 'yaml', 'plist', 'xml', 'html', 'csv') for i in range(len(SEQ_PAIRS))]
    fails += [f for fs in pmap(_sequence_job, sj, repo_root, job_timeout=60, on_timeout=timeout_failure('C07'), fresh=True) for f in fs]
    return [{
        'name': 'C07.hash-seeds-and-purity', 'bound': f"{len(CORPUS)} corpus pairs with 3-6 unshared keys x {len(FLAGSETS)} flag sets x "
        f"PYTHONHASHSEED in 0..{len(seeds) - 1} (subprocesses) + {len(tjobs)} pickle / XML / YAML / plist / CSV file pairs x modes x seeds; {len(pj)} document pairs (JSON, XML, CSV, plist wrapper, pydiff objects): structural and identity-level snapshots before/after diff()+print, two "
        f"in-process repetitions; {len(sj)} render sequences A, B1, A, B2, A, ... ({len(SEQ_PAIRS)} document pairs x 7 output formats, each sequence in a process of its own; B plain and in colour)",
        'evaluations': (len(jobs) + len(tjobs)) * len(seeds) + len(pj) * 2 + len(sj) * (1 + 4 * (len(SEQ_PAIRS) - 1)), 'distinct_nontrivial': len(jobs) + len({(repr(j[0]), repr(j[1])) for j in pj}),
        'exhaustive': False,
        'rule': 'file pair x flags -> byte-identical stdout and equal exit status across hash seeds; tree pair -> input trees '
                'structurally and identity-wise unchanged by diff()/print (no node object replaced, re-classed or re-annotated), identical output on repetition',
        'failures': fails, 'samples': [{'pair': j[0], 'flags': j[1]} for j in jobs[:3]],
    }]
