"""C03 - the reported cost equals the sum of its parts, in every view."""
import random

from vlib import docs as D
from vlib import gt, walk
from vlib.par import pmap, timeout_failure

PROPERTY = 'C03'
LEVEL = 'other'
TARGETS = [
    ('sums', 'sequences.FixedLengthSequenceEdit.bounds'), ('sums', 'sequences.FixedLengthSequenceEdit.edits'),
    ('xmledit', 'xml.XMLElementEdit.bounds'), ('xmledit', 'xml.XMLElementEdit.edits'),
    ('bounded', 'bounds.Range.__add__'), ('bounded', 'edits.AbstractEdit.bounds'),
    ('bounded', 'graphtage.KeyValuePairEdit.bounds'), ('bounded', 'graphtage.KeyValuePairEdit.edits'),
    ('editdistance', 'levenshtein.EditDistance._best_match'),
    # the size lemma (size(x) >= 0, immutable) that every constant cost rests on: one induction step per node class
    ('sizes', 'sequences.SequenceNode.calculate_total_size'), ('sizes', 'graphtage.LeafNode.calculate_total_size'),
    ('sizes', 'graphtage.KeyValuePairNode.calculate_total_size'), ('sizes', 'graphtage.NullNode.calculate_total_size'),
    ('sizes', 'xml.XMLElement.calculate_total_size'), ('sizes', 'plist.PLISTNode.calculate_total_size'),
    ('sizes', 'pydiff.PyObj.calculate_total_size'), ('sizes_memo', 'tree.TreeNode.total_size'),
    ('sizes_ms', 'graphtage.MultiSetNode.calculate_total_size'),      # MultiSetNode and DictNode (Counter of children)
    ('sizes_fk', 'sequences.SequenceNode.calculate_total_size'),      # the same inherited method run for a FixedKeyDictNode
]
TRUSTED = ['protocol B for sub-edits', 'structural induction over the edit tree (paper step)',
           'size lemma: structural induction over the document tree composes the per-class steps (paper step); '
           'DataClassNode.calculate_total_size not under contract (bounded); stored Counter counts are >= 1 (precondition of the MultiSetNode step); len(str(x)) >= 0; '
           'prefix-sum induction schema (sum of terms >= c over m elements is >= c*m)']
ASSUMPTIONS = ['numpy cost cells are mathematical integers']
EXPLANATION = (
    "Deductive (size lemma): calculate_total_size of LeafNode, NullNode, KeyValuePairNode, ListNode and FixedKeyDictNode (SequenceNode), MultiSetNode/DictNode (sum of (size+1)*count over the Counter), XMLElement, "
    "PLISTNode and PyObj returns the size formula of its class and a non-negative value given non-negative child sizes, and "
    "TreeNode.total_size returns the memo once set (immutable) and otherwise stores what calculate_total_size answers - the "
    "facts behind every constant cost size+1 / max(size, size)+1.  "
    "Deductive: FixedLengthSequenceEdit.bounds returns, for every length, exactly the sum of the ranges of the sub-edits "
    "that FixedLengthSequenceEdit.edits lists (positional pairs, one Remove per surplus source element, one Insert per "
    "surplus target element; prefix-sum functions defined by recursion, loop invariant over the listing index); "
    "XMLElementEdit.bounds is the sum of its four listed parts; KeyValuePairEdit.bounds is the sum of the bounds of exactly the two sub-edits its edits() lists; "
    "AbstractEdit.bounds returns the constructor's constant for constant-cost edits; EditDistance._best_match writes "
    "costs[r][c] = costs[predecessor] + upper bound of the chosen edit and changes no other cell (the local step of the "
    "matrix cost = sum of the back-traced edits). The remaining compound edits (MultiSetEdit with its matcher, "
    "EditCollection) and the three views "
    "(edited_cost, sum of get_all_edits, refined top-level bounds) are decided by the bounded tree oracle.")


def witnesses(func_result, ob, repo_root, tier):
    """Concrete inputs for an obligation that is not discharged: a small directed search on the real code (lists of
    different lengths with list edits off for FixedLengthSequenceEdit, XML element pairs for XMLElementEdit)."""
    fn = func_result['function']
    jobs = []
    if 'FixedLengthSequenceEdit' in fn:
        lists = [[], [1], [1, 2], [7, 22222, "ab"], [[1, 2], 3], [[1], [2, 3], "ac", 0]]
        off = [o for o in gt.OPTION_COMBOS if not o['allow_list_edits']][:1] or gt.OPTION_COMBOS[:1]
        jobs = [('json', a, b, o) for a in lists for b in lists for o in off]
    elif 'XMLElementEdit' in fn:
        xs = gt.xml_specs()[:12]
        jobs = [('xml', a, b, gt.OPTION_COMBOS[0]) for a in xs for b in xs]
    elif 'total_size' in fn:
        jobs = _size_jobs()
    out, seen = [], set()
    for j in jobs:
        for f in _check(j):
            if f['class'].startswith('c03-') and f['class'] not in seen:
                seen.add(f['class'])
                out.append(f)
        if len(out) >= 3:
            break
    return out


def replay(entry, repo_root):
    r = entry.get('replay') or {}
    if r.get('kind') == 'doc':
        fs = [f for f in _check((r['fmt'], r['a'], r['b'], r['opt'])) if f['class'].startswith('c03-')]
        return fs[0]['what'] if fs else None
    return None


def _size_jobs():
    docs = [[], [1], [1, "ab", None], {"a": 1}, {"a": [1, 2], "bb": {"c": None}}, [[1, 2], [[], "xyz"], True, 2.5], "", None, 0,
            [1, 1, 1], {"": ""}]
    jobs = [('size', d, k, o) for d in docs for k in ('json', 'multiset') for o in (gt.OPTION_COMBOS[0], gt.OPTION_COMBOS[-1])]
    jobs += [('size', x, 'xml', gt.OPTION_COMBOS[0]) for x in gt.xml_specs()[:14]]
    jobs += [('size', d, 'plist', gt.OPTION_COMBOS[0]) for d in docs[:6]]
    jobs += [('size', d, 'pyobj', gt.OPTION_COMBOS[0]) for d in docs[:6]]
    jobs += [('size', src, 'pyast', gt.OPTION_COMBOS[0]) for src in gt.pyast_sources()[::3]]      # data-class nodes
    return jobs


def _size_check(job):
    """The contracts of contracts.sizes evaluated on the real code: every node's calculate_total_size() equals the formula of
    its class over its children's total_size, is non-negative, and total_size is that value and stays it."""
    import graphtage
    from graphtage import xml as gxml
    from graphtage.sequences import SequenceNode
    _, doc, kind, opt = job
    fails = []
    try:
        if kind == 'xml':
            root = gt.build_xml(doc, opt)
        elif kind == 'multiset':
            root = gt.build_multiset(doc if isinstance(doc, list) else [doc], opt)
        elif kind == 'plist':
            from graphtage.plist import PLISTNode
            root = PLISTNode(gt.build(doc, opt))
        elif kind in ('pyobj', 'pyast'):
            root = gt.build_any((kind, doc), opt)[0]
        else:
            root = gt.build(doc, opt)
        nodes = [root] + list(root.dfs()) if root not in list(root.dfs())[:1] else list(root.dfs())
        for n in nodes:
            cn = type(n).__name__
            got = n.calculate_total_size()
            exp = None
            if isinstance(n, graphtage.KeyValuePairNode):
                exp = n.key.total_size + n.value.total_size + 2
            elif isinstance(n, gxml.XMLElement):
                exp = (0 if n.text is None else n.text.total_size) + n.tag.total_size + n.attrib.total_size + n._children.total_size
            elif isinstance(n, graphtage.MultiSetNode):
                exp = sum((c.total_size + 1) * k for c, k in n._children.items())
            elif isinstance(n, SequenceNode):
                exp = sum(c.total_size + 1 for c in n)
            elif cn == 'PLISTNode':
                exp = n.root.calculate_total_size()
            elif cn == 'PyObj':
                exp = n.attrs.calculate_total_size()
            elif hasattr(n, '_SLOTS') and hasattr(n, 'items'):      # DataClassNode: the sum over its slots
                exp = sum(v.calculate_total_size() for _, v in n.items())
            elif isinstance(n, graphtage.LeafNode):
                exp = 0 if cn == 'NullNode' else len(str(n.object))
            ts1 = n.total_size
            ts2 = n.total_size
            if got < 0 or ts1 < 0:
                fails.append({'what': f"size of a {cn} is negative: calculate_total_size() == {got}, total_size == {ts1}",
                              'class': f'c03-size-negative:{cn}'})
            elif exp is not None and got != exp:
                fails.append({'what': f"{cn}.calculate_total_size() == {got}, the size formula of its class over its children gives {exp}",
                              'class': f'c03-size-formula:{cn}'})
            elif ts1 != got or ts2 != ts1 or n.calculate_total_size() != got:
                fails.append({'what': f"{cn}.total_size == {ts1} then {ts2}, calculate_total_size() == {got}: the size is not one "
                                      f"immutable value", 'class': f'c03-size-memo:{cn}'})
    except Exception as ex:
        fails.append({'what': f"{type(ex).__name__}: {ex}", 'class': f'c03-exception:{type(ex).__name__}'})
    for f in fails[:1]:
        f['what'] = f"{f['what']} [{kind}: {doc!r}, opt={opt}]"
        f['input'] = {'fmt': 'size', 'a': doc, 'b': kind, 'opt': opt}
        f['replay'] = {'kind': 'doc', 'fmt': 'size', 'a': doc, 'b': kind, 'opt': opt}
    return fails[:1]


def _check(job):
    import props.C01 as C01
    fmt, a, b, opt = job
    if fmt == 'size':
        return _size_check(job)
    fails = []
    spec = None
    if fmt == 'biglist':
        # lists whose total cost exceeds 2**16 (and, with wide members, 2**17): spec a = [members, width], b = [kept, changed]
        spec = (a, b)
        rl = random.Random(a[0] * 1000003 + a[1])      # (log-like lines of unrelated text)
        lines = [''.join(rl.choice('abcdefghij') for _ in range(a[1])) for _ in range(a[0])]
        kept = lines[:b[0] // 2] + lines[len(lines) - (b[0] - b[0] // 2):] if b[0] else []
        rev = len(b) > 2 and b[2]
        a, b, fmt = lines, [x if i >= b[1] else x[:-3] + 'XYZ' for i, x in enumerate(kept)], 'json'
        if rev:
            a, b = {"log": b, "rev": 1}, {"log": a, "rev": 2}      # (insertions, nested in a mapping)
    try:
        if fmt == 'plist>json':
            # a plist document compared with a document of another format: PLISTNode.edits hands over to its root
            from graphtage.plist import PLISTNode
            ba = lambda: PLISTNode(gt.build(a, opt))
            bb = lambda: gt.build(b, opt)
        elif fmt in ('pyast', 'pyobj'):
            # Python source -> tree of data-class nodes / Python object -> PyObj tree (diff() works on make_edited() copies, whose
            # classes are the dynamically created Edited* subclasses: the three views take different routes through edits())
            ba = lambda: gt.build_any((fmt, a), opt)[0]
            bb = lambda: gt.build_any((fmt, b), opt)[0]
        else:
            ba = lambda: C01._build(fmt, a, opt)
            bb = lambda: C01._build(fmt, b, opt)
        ta, tb = ba(), bb()
        e = ta.edits(tb)
        walk.refine(e)
        walk.walk(e, ta.root if fmt == 'plist>json' else ta, tb, None, fails)
        top = e.bounds()
        d = ba().diff(bb())
        ec = d.edited_cost()
        flat = list(ba().get_all_edits(bb()))
        for x in flat:
            walk.refine(x)
        fs = sum(x.bounds().upper_bound for x in flat)
        if not (top.lower_bound == top.upper_bound == ec == fs):
            via = any(f['class'] == 'c03-sum-mismatch:MultiSetEdit:leftover' for f in fails)
            suffix = ':via-MultiSetEdit-leftover' if via else ''
            if not via:
                # which annotated edit disagrees with its own listed parts?
                for n in d.dfs():
                    for ed in getattr(n, 'edit_list', []):
                        if type(ed).__name__ == 'EditDistance':
                            parts = list(ed.edits())
                            if sum(x.bounds().upper_bound for x in parts) != ed.bounds().upper_bound:
                                suffix = ':editdistance-frozen-cost'
            fails.append({'what': f"three views disagree: refined top-level bounds {top}, edited_cost() {ec}, sum over "
                                  f"get_all_edits {fs}", 'class': 'c03-views-disagree' + suffix})
        # one base, several revisions: the annotated result of a diff is itself a tree and can be diffed again; the views of
        # the second comparison must agree with each other and the first annotated tree must keep its own cost
        if fmt == 'json' and not fails and spec is None:
            base = C01._build(fmt, a, opt)
            d1 = base.diff(C01._build(fmt, b, opt))
            c1 = d1.edited_cost()
            rev2 = b if isinstance(b, list) else [b]
            rev2 = rev2 + [a] if not isinstance(a, list) else list(a) + rev2
            t2 = C01._build(fmt, rev2, opt)
            d2 = d1.diff(t2)
            ec2 = d2.edited_cost()
            e2 = C01._build(fmt, a, opt).edits(C01._build(fmt, rev2, opt))
            walk.refine(e2)
            ref2 = C01._build(fmt, a, opt).diff(C01._build(fmt, rev2, opt)).edited_cost()
            if ec2 != ref2:
                fails.append({'what': f"re-diffing an annotated tree: (a.diff(b)).diff(c).edited_cost() == {ec2} but a.diff(c).edited_cost() "
                                      f"== {ref2} (refined edit {e2.bounds()}), c = {rev2!r}", 'class': 'c03-rediff-cost'})
            if d1.edited_cost() != c1:
                fails.append({'what': f"a.diff(b).edited_cost() changed from {c1} to {d1.edited_cost()} after the annotated tree was "
                                      f"diffed against {rev2!r}", 'class': 'c03-rediff-retroactive'})
    except Exception as ex:
        fails.append({'what': f"{type(ex).__name__}: {ex}", 'class': f'c03-exception:{type(ex).__name__}'})
    if spec is not None:
        a, b, fmt = f"<list of {spec[0][0]} strings of {spec[0][1]} random characters (random.Random(n * 1000003 + width))>", f"<the first and last {spec[1][0]} // 2 of them>" + (' (reversed, nested in a mapping)' if len(spec[1]) > 2 and spec[1][2] else ''), 'biglist'
    for f in fails:
        f['what'] = f"{f['what']} [{fmt}: {a!r} -> {b!r}, opt={opt}]"
        if spec is not None:
            a, b = spec
        f['input'] = {'fmt': fmt, 'a': a, 'b': b, 'opt': opt}
        f['replay'] = {'kind': 'doc', 'fmt': fmt, 'a': a, 'b': b, 'opt': opt}
    return fails


def bounded(tier, seed, repo_root):
    atoms = [0, 1, 22222, "ab", "ac", None]
    docs = D.enum_docs(4 if tier == 'quick' else 5, atoms=atoms, keys=['a', 'bb', 'c'], max_width=3)
    budget = 40000 if tier == 'quick' else 400000
    pairs, exhaustive = D.sample_pairs(docs, budget, seed)
    jobs = [('json', a, b, gt.OPTION_COMBOS[i % 9]) for i, (a, b) in enumerate(pairs)]
    base = [{"a": 1, "bbbbbbbb": 22222, "c": 3}, {"bbbbbbbX": 22222}, {"a": 1}, {"a": 1, "b": [1, 2, 3]}, [1, 2, 3, 4], [9],
            [[1, 2], 3], {"a": {"a": 1, "b": 2, "c": 3}}, {"a": {"b": 2}},
            # (known finding editdistance-frozen-cost: a list whose last differing element is a mapping with unmatched keys)
            [[], {"a": "ab", "c": 1}], ["ab", {"bb": 1, "c": None}]]
    for a in base:
        for b in base:
            for o in gt.OPTION_COMBOS:
                jobs.append(('json', a, b, o))
    for a, b in D.hash_collision_pairs():      # distinct values with equal Python hashes
        jobs.append(('json', a, b, gt.OPTION_COMBOS[0]))
    rnd = random.Random(seed)
    pd = [d for d in docs if 'None' not in repr(d)]
    for _ in range(400 if tier == 'quick' else 4000):
        jobs.append(('plist>json', rnd.choice(pd), rnd.choice(pd), gt.OPTION_COMBOS[rnd.randrange(9)]))
    xs = gt.xml_specs()
    for _ in range(300 if tier == 'quick' else 3000):
        jobs.append(('xml', rnd.choice(xs), rnd.choice(xs), gt.OPTION_COMBOS[rnd.randrange(9)]))
    # totals above 2**16 (the cost matrices are numpy arrays of fixed width)
    # (members that are kept are kept unchanged: changed long members make the comparison itself take minutes)
    big = [([400, 200], [6, 0]), ([700, 100], [0, 0]), ([350, 400], [10, 0]), ([1200, 60], [100, 0]), ([400, 200], [6, 0, 1]), ([800, 200], [20, 0, 1])]
    if tier != 'quick':
        big += [([800, 200], [20, 0]), ([3000, 30], [1000, 0]), ([3000, 30], [1000, 0, 1]), ([5000, 100], [2, 0])]
    for sa, sb in big:
        for o in (gt.OPTION_COMBOS[0], gt.OPTION_COMBOS[3]):      # (list edits on: positional pairing of unrelated long strings takes minutes)
            jobs.append(('biglist', sa, sb, o))
    ps = gt.pyast_sources()
    pp = [(x, y) for x in ps for y in ps if x is not y]
    rnd.shuffle(pp)
    for x, y in pp[:250 if tier == 'quick' else 2500]:
        jobs.append(('pyast', x, y, gt.OPTION_COMBOS[rnd.randrange(9)]))
    po = [d for d in docs if isinstance(d, (dict, list))]
    for _ in range(150 if tier == 'quick' else 1500):
        jobs.append(('pyobj', rnd.choice(po), rnd.choice(po), gt.OPTION_COMBOS[rnd.randrange(9)]))
    jobs += _size_jobs()      # (DataClassNode.calculate_total_size is not under contract: bounded here)
    res = pmap(_check, jobs, repo_root, job_timeout=60, on_timeout=timeout_failure('C03'))
    fails = [f for fs in res for f in fs if f['class'].startswith('c03-')]
    return [{
        'name': 'C03.cost-sums', 'bound': f"documents <= {4 if tier == 'quick' else 5} nodes over {atoms!r} "
        f"({'all' if exhaustive else 'seeded sample of'} {len(pairs)} pairs, options cycling) + structured pairs with containers of "
        f"different sizes + XML pairs + plist documents compared with JSON documents + {len(big)} long lists of long strings whose total cost exceeds 2**16",
        'evaluations': len(jobs), 'distinct_nontrivial': len({(j[0], repr(j[1]), repr(j[2])) for j in jobs}), 'exhaustive': False,
        'rule': 'pair x options -> at every level the refined cost of a compound edit equals the sum of the costs of the '
                'sub-edits it lists; refined top-level bounds == edited_cost() == sum over get_all_edits()',
        'failures': fails, 'samples': [{'fmt': j[0], 'a': j[1], 'b': j[2], 'opt': j[3]} for j in jobs[300:303]],
    }]
