"""C11 - string changes are minimal."""
import itertools
import random

from vlib.par import pmap, timeout_failure

PROPERTY = 'C11'
LEVEL = 'other'
TARGETS = [('editdistance_str', 'levenshtein.EditDistance._best_match'), ('nodes', 'graphtage.StringNode.edits'),
           ('editdistance', 'levenshtein.EditDistance.edits'), ('editdistance', 'levenshtein.EditDistance._add_node')]
TRUSTED = ['textbook identity: insert/delete distance D(n,m) = n + m - 2*LCS (cited, not proved)',
           'prefix / suffix trimming preserves the distance (standard)',
           'the fringe schedule calls _best_match(r,c) after its three neighbours are final (monitored by the bounded run)']
ASSUMPTIONS = []
EXPLANATION = (
    "Deductive: StringNode.edits returns a Match of cost 0 for equal text and of cost 1 for two different single "
    "characters (identity of str objects is modelled as unspecified, so a comparison by `is` fails the contract), which is "
    "the pair-cost premise of the per-character instance; then (loop-free, full integer domain - a complete proof of the local step): EditDistance._best_match on the "
    "per-character instance (penalty 0, sizes 1, pair cost 0/1) writes exactly the textbook recurrence of the "
    "insert/delete distance min(D(r-1,c-1) + (0 if equal else 2), D(r-1,c)+1, D(r,c-1)+1), never keeps a pair of "
    "different characters, realises the value with the returned predecessor and preserves adjacency of neighbouring "
    "cells, so the tie rules cannot lose optimality; with the back-trace contract of edits() the kept characters are a "
    "common subsequence. Bounded stand-in for the whole pipeline: exhaustive comparison with a reference LCS over all "
    "pairs of strings on small alphabets, then seeded longer samples.")


def lcs(a, b):
    n, m = len(a), len(b)
    t = [[0] * (m + 1) for _ in range(n + 1)]
    for i in range(n):
        for j in range(m):
            t[i + 1][j + 1] = t[i][j] + 1 if a[i] == b[j] else max(t[i][j + 1], t[i + 1][j])
    return t[n][m]


def _check(pair):
    a, b = pair[0], pair[1]
    import graphtage
    from graphtage import edits as E
    fails = []
    try:
        if len(pair) > 2 and pair[2] == 'node':
            # the route diff() takes: StringNode.edits -> StringEdit -> its edit distance
            se = graphtage.StringNode(a).edits(graphtage.StringNode(b))
            if not isinstance(se, graphtage.StringEdit):
                if a != b and not (len(a) == 1 and len(b) == 1):
                    fails.append({'what': f"StringNode({a!r}).edits(StringNode({b!r})) is a {type(se).__name__}, not a StringEdit",
                                  'class': 'c11-not-a-string-edit'})
                return _tag11(fails, a, b)
            ed = se.edit_distance
        else:
            ed = graphtage.string_edit_distance(a, b)
        n = 0
        while ed.tighten_bounds():
            n += 1
            if n > 1000000:
                raise RuntimeError('no convergence')
        kept, removed, inserted = [], 0, 0
        srcpos = dstpos = 0
        for e in ed.edits():
            if isinstance(e, E.Remove):
                removed += 1
                srcpos += 1
            elif isinstance(e, E.Insert):
                inserted += 1
                dstpos += 1
            else:
                if e.from_node.object == e.to_node.object:
                    kept.append(e.from_node.object)
                else:
                    removed += 1
                    inserted += 1
                srcpos += 1
                dstpos += 1
        L = lcs(a, b)
        if srcpos != len(a) or dstpos != len(b):
            fails.append({'what': f"script does not cover the strings: {srcpos}/{len(a)} source, {dstpos}/{len(b)} target characters",
                          'class': 'c11-not-covering'})
        if len(kept) != L or removed + inserted != len(a) + len(b) - 2 * L:
            fails.append({'what': f"kept {len(kept)} characters {''.join(kept)!r}, removed {removed}, inserted {inserted}; a longest "
                                  f"common subsequence has length {L} (minimum removed+inserted = {len(a) + len(b) - 2 * L})",
                          'class': 'c11-not-minimal'})
    except Exception as ex:
        fails.append({'what': f"{type(ex).__name__}: {ex}", 'class': f'c11-exception:{type(ex).__name__}'})
    return _tag11(fails, a, b)


def _tag11(fails, a, b):
    for f in fails:
        ab = lambda x: repr(x) if len(x) <= 60 else f"<{len(x)} chars: {x[:12]!r}...{x[-12:]!r}>"
        f['what'] += f" [{ab(a)} -> {ab(b)}]"
        f['input'] = {'a': a, 'b': b}
        f['replay'] = {'kind': 'strings', 'a': a, 'b': b}
    return fails


def witnesses(func_result, ob, repo_root, tier):
    strings = [''.join(p) for n in range(0, 5) for p in itertools.product('ab', repeat=n)]
    strings += [''.join(p) for n in range(1, 4) for p in itertools.product('a\u20ac\u03b2', repeat=n)]
    for a in strings:
        for b in strings:
            f = _check((a, b))
            if f:
                return f[:1]
    return []


def replay(entry, repo_root):
    r = entry.get('replay') or {}
    if r.get('kind') == 'strings':
        f = _check((r['a'], r['b']))
        return f[0]['what'] if f else None
    return None


def bounded(tier, seed, repo_root):
    L2, L3 = (6, 4) if tier == 'quick' else (8, 5)
    s2 = [''.join(p) for n in range(0, L2 + 1) for p in itertools.product('ab', repeat=n)]
    s3 = [''.join(p) for n in range(0, L3 + 1) for p in itertools.product('abc', repeat=n)]
    # characters outside Latin-1 (not interned by CPython: every occurrence is a distinct object), astral and combining
    wide = 'a\u20ac\u03b2'
    sw = [''.join(p) for n in range(0, (4 if tier == 'quick' else 5) + 1) for p in itertools.product(wide, repeat=n)]
    pairs = [(a, b) for a in s2 for b in s2] + [(a, b) for a in s3 for b in s3] + [(a, b) for a in sw for b in sw]
    # the same through StringNode.edits (the route diff() takes) on a sample
    rnd0 = random.Random(seed + 1)
    pairs += [p + ('node',) for p in rnd0.sample(pairs, min(len(pairs), 4000 if tier == 'quick' else 40000))]
    n_ex = len(pairs)
    rnd = random.Random(seed)
    for _ in range(1500 if tier == 'quick' else 15000):
        n, m = rnd.randint(5, 24), rnd.randint(5, 24)
        al = rnd.choice(['ab', 'abc', 'abcdefgh', 'aab', 'a\u20ac\u03b2\u4e2d', '\U0001f600\u00e9e\u0301 \n"\\', '\u03b1\u03b2\u03b3\u03b4'])
        a = ''.join(rnd.choice(al) for _ in range(n))
        b = list(a) if rnd.random() < 0.5 else [rnd.choice(al) for _ in range(m)]
        for _ in range(rnd.randint(0, 5)):
            if b and rnd.random() < 0.5:
                del b[rnd.randrange(len(b))]
            else:
                b.insert(rnd.randrange(len(b) + 1), rnd.choice(al))
        pairs.append((a, ''.join(b)))
    # accumulated costs beyond 2**16 (the cost matrices are numpy arrays of fixed width; integers are mathematical in the VC
    # generator): one pair whose strings differ by more than 65536 characters with a common character on the 2**16 contour
    huge = [('-' * 65535 + 'b' + '---', 'b')]
    # ... and around the narrower integer widths (2**7, 2**8, 2**15 totals): two long, mostly unrelated strings that share a few
    # characters placed where the accumulated cost crosses the boundary
    for n, m in ((130, 129), (250, 60), (128, 128), (127, 130), (200, 100), (255, 255), (90, 60), (64, 64)):
        for k in range(3):
            a = [rnd.choice('abcdefg') for _ in range(n)]
            b = [rnd.choice('tuvwxyz') for _ in range(m)]
            for pos in sorted(rnd.sample(range(min(n, m)), k + 1)):
                a[n - 1 - pos if k == 2 else pos] = b[pos] = '#'       # shared characters (aligned, or mirrored for k == 2)
            pairs.append((''.join(a), ''.join(b)))
    res = pmap(_check, pairs, repo_root, chunksize=500, job_timeout=60, on_timeout=timeout_failure('C11')) + pmap(_check, huge, repo_root, chunksize=1, job_timeout=700, on_timeout=timeout_failure('C11'))
    pairs = pairs + huge
    fails = [f for fs in res for f in fs]
    return [{
        'name': 'C11.lcs-reference', 'bound': f"all pairs of strings over {{a,b}} up to length {L2} and over {{a,b,c}} up to length {L3} and over {{a, U+20AC, U+03B2}} (non-Latin-1) up to length {4 if tier == 'quick' else 5} "
        f"({n_ex} pairs, exhaustive) + {len(pairs) - n_ex} seeded longer pairs with repeats and shared prefixes/suffixes over ASCII, Greek, CJK, astral, combining and control characters + 24 pairs of long unrelated strings sharing 1-3 characters with totals around 2**7 / 2**8 + 1 pair differing by more than 2**16 characters",
        'evaluations': len(pairs), 'distinct_nontrivial': len({p[:2] for p in pairs if p[0] != p[1]}), 'exhaustive': True,
        'rule': 'pair of strings -> string_edit_distance refined to fix-point: kept characters == LCS length and removed+inserted '
                '== n+m-2*LCS; non-trivial = the strings differ',
        'failures': fails, 'samples': [list(p) for p in pairs[9000:9003]],
    }]
