"""C18 - Python objects are converted faithfully and cycles never hang."""
import itertools
import random

from vlib.par import pmap, with_timeout, JobTimeout

PROPERTY = 'C18'
LEVEL = 'other'
TARGETS = [('mapping_items', 'graphtage.MappingNode.items'), ('mapping_items', 'graphtage.FixedKeyDictNode.items'),
           ('to_obj', 'graphtage.ListNode.to_obj'), ('to_obj', 'plist.PLISTNode.to_obj'),
           ('to_obj', 'graphtage.MappingNode.to_obj')]
TRUSTED = ['MappingNode.__iter__ against a ghost item list', 'to_obj() of a child is a function of the child (induction hypothesis)', 'plain keys of a mapping are pairwise distinct (precondition of MappingNode.to_obj; a dict is modelled as its item sequence)']
ASSUMPTIONS = []
EXPLANATION = (
    "Deductive: ListNode.to_obj() is the list of its children's to_obj() values, same length and order (the real comprehension, "
    "children's values by induction hypothesis), PLISTNode.to_obj() is its root's, MappingNode.to_obj() (the real dict comprehension over items()) maps the plain value of every key to the plain value of its value, in item order, for pairwise distinct plain keys.  MappingNode.items() yields (pair.key, pair.value) for every pair in iteration order, proved for the "
    "base class and for the override FixedKeyDictNode.items - the step on which to_obj() of every mapping rests. "
    "json.build_tree / Builder.build_tree dispatch on the dynamic type of arbitrary Python objects and walk object graphs "
    "with identity-based ancestor checks; that is outside the VC generator (no dynamically typed values, no object "
    "graphs), so the round trip, agreement between entry points, deep copy, sharing and cycle handling are decided by a "
    "bounded stand-in: all object graphs with a bounded number of container nodes over list/tuple/dict/set, including "
    "sharing (DAGs) and every placement of one or two back edges, through json.build_tree, BasicBuilder().build_tree and "
    "pydiff.build_tree x options.")
STEP_TIMEOUT = 5


def norm(x):
    """Expected plain value: tuples read back as lists, sets as multisets (Counter of normalised members)."""
    from collections import Counter
    if isinstance(x, (list, tuple)):
        return [norm(i) for i in x]
    if isinstance(x, dict):
        return {k: norm(v) for k, v in x.items()}
    if isinstance(x, (set, frozenset)):
        return ('multiset', sorted(repr(norm(i)) for i in x))
    if isinstance(x, bytes):
        return x.decode()
    return x


def norm_out(o):
    from collections import Counter
    if isinstance(o, Counter):
        return ('multiset', sorted(repr(norm_out(k)) for k, v in o.items() for _ in range(v)))
    if isinstance(o, list):
        return [norm_out(i) for i in o]
    if isinstance(o, tuple):
        return [norm_out(i) for i in o]
    if isinstance(o, dict):
        return {k: norm_out(v) for k, v in o.items()}
    return o


def expected_with_cycles(x, ancestors=()):
    """The document with every back edge (a child that is one of its own ancestors, by identity) replaced by a marker."""
    if any(x is a for a in ancestors):
        return ('CYCLE', id(x))
    anc = ancestors + (x,)
    if isinstance(x, (list, tuple)):
        return [expected_with_cycles(i, anc) for i in x]
    if isinstance(x, dict):
        return {k: expected_with_cycles(v, anc) for k, v in x.items()}
    return x


def norm_cyc(o):
    if type(o).__name__ == 'IdentityHash':
        return ('CYCLE', id(o.obj))
    if isinstance(o, (list, tuple)):
        return [norm_cyc(i) for i in o]
    if isinstance(o, dict):
        return {k: norm_cyc(v) for k, v in o.items()}
    return o


SCALARS = [0, 1, "a", None, True, 2.5]


def acyclic_graphs(rnd, n):
    """Random acyclic structures with sharing."""
    out = []
    for _ in range(n):
        pool = [rnd.choice(SCALARS) for _ in range(3)]
        nodes = []
        for _ in range(rnd.randint(1, 5)):
            kind = rnd.choice(['list', 'tuple', 'dict', 'set'])
            src = pool + nodes
            if kind == 'list':
                v = [rnd.choice(src) for _ in range(rnd.randint(0, 3))]
            elif kind == 'tuple':
                v = tuple(rnd.choice(src) for _ in range(rnd.randint(0, 3)))
            elif kind == 'dict':
                v = {k: rnd.choice(src) for k in rnd.sample(['a', 'b', 'c'], rnd.randint(0, 3))}
            else:
                hashable = [s for s in src if isinstance(s, (int, str, float, type(None), tuple, frozenset)) and _hashable(s)]
                v = frozenset(rnd.sample(hashable, min(len(hashable), rnd.randint(0, 3)))) if hashable else frozenset()
            nodes.append(v)
        out.append(nodes[-1])
    return out


def _hashable(x):
    try:
        hash(x)
        return True
    except TypeError:
        return False


class Obj:
    """Custom class for object graphs handled only by pydiff.build_tree."""
    def __init__(self, **kw):
        self.__dict__.update(kw)


def custom_cyclic_graphs():
    """Cycles that pass through instances of a custom class (pydiff.build_tree only)."""
    out = []
    o = Obj(v=1)
    o.me = o
    out.append(('custom object with an attribute referring to itself', o))
    p, c = Obj(name='p'), Obj(name='c')
    p.child, c.parent = c, p
    out.append(('custom parent/child objects referring to each other', p))
    o = Obj(v=2)
    o.items = [1, o]
    out.append(('custom object -> list -> same object', o))
    o = Obj(v=3)
    o.d = {'k': o}
    out.append(('custom object -> dict -> same object', o))
    lst = [0]
    lst.append(Obj(owner=lst))
    out.append(('list -> custom object -> same list', lst))
    d = {'s': 'x'}
    d['o'] = Obj(inner=Obj(top=d))
    out.append(('dict -> custom object -> custom object -> same dict', d))
    a, b, c = Obj(n=1), Obj(n=2), Obj(n=3)
    a.next, b.next, c.next = b, c, a
    out.append(('ring of three custom objects', a))
    o = Obj(v=4)
    o.t = (1, (2, o))
    out.append(('custom object -> nested tuples -> same object', o))
    return out


def sibling_cyclic_graphs():
    """A cycle followed (in the same container, or further up) by nested containers that are NOT part of any cycle."""
    out = []
    root = []
    back = [root]
    root.extend([back, [[3], [4]], {"k": [[5]]}, "tail"])
    out.append(('list: member pointing back to the root, then nested siblings', root))
    d = {}
    d.update({"self": d, "x": [[1]], "y": [[2]], "z": {"p": {"q": 1}}})
    out.append(('dict: value pointing back to the dict, then nested values', d))
    inner = {"v": [1, [2, [3]]]}
    loop = [0]
    loop.append(loop)
    out.append(('nested: a self-containing list inside a list, followed by deep siblings', [loop, inner, [[["deep"]]], (1, (2, (3,)))]))
    a = {"n": 1}
    a["again"] = {"up": a, "after": [[1, 2], {"k": [3]}]}
    out.append(('dict -> dict -> back to the first, with nested values after the back edge', {"first": a, "second": [[a["again"]["after"]]]}))
    return out


def cyclic_graphs():
    """Every placement of one or two back edges in small list/dict skeletons, cycles followed by nested siblings, then the
    custom-object cycles."""
    return _builtin_cyclic_graphs() + sibling_cyclic_graphs() + [(d + ' [custom]', o) for d, o in custom_cyclic_graphs()]


def _builtin_cyclic_graphs():
    out = []
    for depth in (1, 2, 3):
        for kind in itertools.product(['list', 'dict'], repeat=depth):
            for back_from in range(depth):
                for back_to in range(back_from + 1):
                    chain = [[] if k == 'list' else {} for k in kind]
                    for i in range(depth - 1):
                        if kind[i] == 'list':
                            chain[i].extend([1, chain[i + 1]])
                        else:
                            chain[i]['k'] = chain[i + 1]
                            chain[i]['s'] = 'x'
                    if kind[back_from] == 'list':
                        chain[back_from].append(chain[back_to])
                    else:
                        chain[back_from]['back'] = chain[back_to]
                    out.append((f"{'/'.join(kind)} back edge {back_from}->{back_to}", chain[0]))
                    if depth >= 2:
                        c2 = chain[0]
                        extra = chain[-1]
                        if isinstance(extra, list):
                            extra.append(chain[0])
                        else:
                            extra['back2'] = chain[0]
                        out.append((f"{'/'.join(kind)} back edges {back_from}->{back_to} and {depth - 1}->0", c2))
    return out


def _entry_points(opt):
    import graphtage
    from graphtage import json as gj, pydiff
    from graphtage.builder import BasicBuilder
    extra = {}
    if not opt:
        # the documented default: options may be omitted
        extra = {'json.build_tree(no options)': lambda o: gj.build_tree(o),
                 'pydiff.build_tree(no options)': lambda o: pydiff.build_tree(o)}
    return {
        **extra,
        'json.build_tree': lambda o: gj.build_tree(o, graphtage.BuildOptions(**opt)),
        'BasicBuilder.build_tree': lambda o: BasicBuilder(graphtage.BuildOptions(**opt)).build_tree(o),
        'pydiff.build_tree': lambda o: pydiff.build_tree(o, graphtage.BuildOptions(**opt)),
    }


def _acyclic_job(job):
    try:
        return with_timeout(_acyclic_inner, job, 20)
    except JobTimeout:
        return [{'what': f"conversion of the acyclic object {job[0]!r} did not finish within 20s", 'class': 'c18-hang-acyclic',
                 'input': {'obj': repr(job[0]), 'opt': job[1]}, 'replay': None}]


def _acyclic_inner(job):
    obj, opt = job
    fails = []
    expected = norm(obj)
    has_set = 'multiset' in repr(expected)
    results = {}
    for name, fn in _entry_points(opt).items():
        cname = name.split('(')[0]
        if name.startswith('json.build_tree') and has_set:
            continue        # json.build_tree documents no support for sets
        try:
            t = fn(obj)
            got = norm_out(t.to_obj())
            results[name] = got
            if got != expected:
                fails.append({'what': f"{name}({obj!r}).to_obj() == {t.to_obj()!r}, expected {expected!r}", 'class': f'c18-roundtrip:{cname}'})
            c = t.copy()
            if not (c == t) or c is t:
                fails.append({'what': f"copy() of the tree built by {name} from {obj!r} is not an equal, distinct tree", 'class': f'c18-copy:{cname}'})
        except Exception as ex:
            cls = f'c18-exception:{cname}:{type(ex).__name__}'
            if isinstance(ex, TypeError) and 'unhashable' in str(ex) and has_set:
                cls = 'c18-set-with-container-member'
            fails.append({'what': f"{name}({obj!r}) raised {type(ex).__name__}: {ex}", 'class': cls})
    vals = list(results.values())
    if any(v != vals[0] for v in vals[1:]):
        fails.append({'what': f"entry points disagree on {obj!r}: {results!r}", 'class': 'c18-entry-points-disagree'})
    for f in fails:
        f['what'] += f" opt={opt}"
        f['input'] = {'obj': repr(obj), 'opt': opt}
        f['replay'] = None
    return fails


def _cyclic_job(job):
    idx, opt = job
    desc, obj = cyclic_graphs()[idx]
    fails = []
    for name, fn in _entry_points(opt).items():
        cname = name.split('(')[0]
        if desc.endswith('[custom]') and cname != 'pydiff.build_tree':
            continue        # only pydiff.build_tree documents support for instances of arbitrary classes
        try:
            t = with_timeout(fn, obj, STEP_TIMEOUT)
            if opt.get('ignore_cycles'):
                from graphtage.builder import CyclicReference
                if not any(isinstance(n, CyclicReference) for n in t.dfs()):
                    fails.append({'what': f"{name} on cyclic input ({desc}) returned a tree without a cycle placeholder",
                                  'class': f'c18-cycle-no-placeholder:{cname}'})
                elif not desc.endswith('[custom]'):
                    # everything that is not on the cycle must be converted faithfully, the back edges become placeholders
                    got, exp = norm_cyc(t.to_obj()), expected_with_cycles(obj)
                    if got != exp:
                        fails.append({'what': f"{name} on cyclic input ({desc}) with cycles ignored converts to {got!r}, expected {exp!r} "
                                              f"(back edges replaced by placeholders, everything else kept)",
                                      'class': f'c18-cycle-content:{cname}'})
            else:
                fails.append({'what': f"{name} on cyclic input ({desc}) returned normally although cycles are not ignored",
                              'class': f'c18-cycle-accepted:{cname}'})
        except JobTimeout:
            fails.append({'what': f"{name} on cyclic input ({desc}) did not terminate within {STEP_TIMEOUT}s", 'class': f'c18-cycle-hang:{cname}'})
        except ValueError:
            if opt.get('ignore_cycles'):
                fails.append({'what': f"{name} on cyclic input ({desc}) raised ValueError although cycles are to be ignored",
                              'class': f'c18-cycle-error-when-ignored:{cname}'})
        except RecursionError:
            fails.append({'what': f"{name} on cyclic input ({desc}) ended in RecursionError, not a cycle error / placeholder",
                          'class': f'c18-cycle-recursionerror:{cname}'})
        except Exception as ex:
            fails.append({'what': f"{name} on cyclic input ({desc}) raised {type(ex).__name__}: {ex}", 'class': f'c18-cycle-exception:{cname}:{type(ex).__name__}'})
    for f in fails:
        f['what'] += f" opt={opt}"
        f['input'] = {'cyclic': desc, 'opt': opt}
        f['replay'] = {'kind': 'cyclic', 'idx': idx, 'opt': opt}
    return fails


def _isolation_job(job):
    """Handlers registered on a user-defined Builder subclass affect that subclass only: the stock entry points convert
    every sample exactly as before, and their handler tables are unchanged."""
    import graphtage
    from graphtage import IntegerNode, ListNode, StringNode, pydiff
    from graphtage.builder import BasicBuilder, Builder
    fails = []

    def fail(kind, what):
        fails.append({'what': what, 'class': f'c18-{kind}', 'input': {'scenario': job}, 'replay': {'kind': 'isolation', 'job': job}})
    shared = [7, (8, 9)]
    samples = [[1, "a", (2, "b", 3.5), {"k": 255, "l": [shared, shared]}, None, True], {"x": [0, -1], "y": {"z": "s"}}, [255, [256]], "txt", 5,
               [Obj()]]

    def convert():
        out = []
        for opt in ({}, {'allow_key_edits': False}):
            for name, fn in _entry_points(opt).items():
                for smp in samples:
                    if name.startswith('json') and 'Obj' in repr(smp):
                        continue
                    try:
                        out.append((name, repr(smp)[:60], gt.canon(fn(smp))))
                    except Exception as ex:
                        out.append((name, repr(smp)[:60], f"{type(ex).__name__}: {ex}"))
        return out

    stock = [BasicBuilder, pydiff.PyObjBuilder, pydiff.ASTBuilder]
    tables = lambda: {(c.__name__, t): dict(getattr(c, t)) for c in stock for t in ('BUILDERS', 'EXPANDERS')}
    try:
        before, tb = convert(), tables()

        if job in ('basic-subclass', 'all'):
            class HexBuilder(BasicBuilder):
                @Builder.builder(int)
                def build_hex(self, obj, _):
                    return StringNode(hex(obj))

            class RangeBuilder(BasicBuilder):          # (a type the stock builders have no handler for)
                @Builder.expander(range)
                def expand_range(self, obj):
                    yield from obj

                @Builder.builder(range)
                @Builder.builder(bytes)
                def build_range(self, obj, children):
                    return ListNode(children)
            if RangeBuilder().build_tree([range(2)]).to_obj() != [[0, 1]]:
                fail('custom-builder-ignored', "a BasicBuilder subclass with handlers for range does not use them")
            if HexBuilder().build_tree([255, "z"]).to_obj() != ["0xff", "z"]:
                fail('custom-builder-ignored', "a BasicBuilder subclass with @Builder.builder(int) does not use its handler")
        if job in ('pyobj-subclass', 'all'):
            class FlatObj(pydiff.PyObjBuilder):
                @Builder.builder(Obj)
                def build_o(self, obj, children):
                    return StringNode("obj")

                @Builder.expander(Obj)
                def expand_o(self, obj):
                    return iter(())
        if job in ('direct-subclass', 'all'):
            class Lone(Builder):
                @Builder.builder(str)
                def build_s(self, obj, _):
                    return IntegerNode(len(obj))

                @Builder.builder(dict)
                def build_d(self, obj, children):
                    return ListNode(())
        after, ta = convert(), tables()
        for k in tb:
            if tb[k].keys() != ta[k].keys() or any(tb[k][t] is not ta[k][t] for t in tb[k]):
                diff = sorted(str(t) for t in set(ta[k]) ^ set(tb[k])) or sorted(str(t) for t in tb[k] if tb[k][t] is not ta[k].get(t))
                fail('builder-registry-leak', f"defining Builder subclasses ({job}) changed {k[0]}.{k[1]}: entries {diff}")
                break
        for b, a in zip(before, after):
            if b != a:
                fail('conversion-depends-on-other-builders', f"{b[0]}({b[1]}) converts to {str(b[2])[:120]} before and to {str(a[2])[:120]} after "
                                                             f"unrelated Builder subclasses ({job}) were defined")
                break
    except Exception as ex:
        fail('isolation-exception:' + type(ex).__name__, f"{type(ex).__name__}: {ex} (scenario {job})")
    return fails


def witnesses(func_result, ob, repo_root, tier):
    for opt in ({'allow_key_edits': False}, {}):
        for obj in ({"a": 1}, {"a": [1, {"b": 2}]}, [1, 2, 3], [[1, "a"], [], [None, [2.5, True]]], [7]):
            f = [x for x in _acyclic_inner((obj, opt)) if 'roundtrip' in x['class']]
            if f:
                return f[:1]
    return []


def replay(entry, repo_root):
    r = entry.get('replay') or {}
    if r.get('kind') == 'isolation':
        f = _isolation_job(r['job'])
        return f[0]['what'] if f else None
    if r.get('kind') == 'cyclic':
        f = _cyclic_job((r['idx'], r['opt']))
        return f[0]['what'] if f else None
    return None


def bounded(tier, seed, repo_root):
    rnd = random.Random(seed)
    objs = acyclic_graphs(rnd, 1500 if tier == 'quick' else 15000)
    shared = [1, 2]
    objs += [[shared, shared], {"a": shared, "b": [shared]}, (shared, [shared, (shared,)]), [[], [], {}], {"a": {}, "b": {}}]
    opts = [{}, {'allow_key_edits': False}, {'auto_match_keys': False}, {'check_for_cycles': False}, {'allow_list_edits': False}]
    jobs = [(o, opts[i % len(opts)]) for i, o in enumerate(objs)]
    fails = [f for fs in pmap(_acyclic_job, jobs, repo_root) for f in fs]
    ncyc = len(cyclic_graphs())
    cj = [(i, o) for i in range(ncyc) for o in ({}, {'ignore_cycles': True}, {'allow_key_edits': False}, {'allow_key_edits': False, 'ignore_cycles': True})]
    fails += [f for fs in pmap(_cyclic_job, cj, repo_root, chunksize=2) for f in fs]
    # (each scenario in its own pool: the subclasses it defines stay in that worker)
    for scen in ('basic-subclass', 'pyobj-subclass', 'direct-subclass', 'all'):
        fails += [f for fs in pmap(_isolation_job, [scen], repo_root, workers=1) for f in fs]
    return [{
        'name': 'C18.object-graphs', 'bound': f"{len(objs)} acyclic structures (<= 5 containers over list/tuple/dict/frozenset with shared "
        f"sub-objects) x build options; {ncyc} cyclic structures (chains of depth 1-3, every placement of one back edge and a second "
        f"back edge to the root, plus {len(custom_cyclic_graphs())} cycles through instances of a custom class for pydiff.build_tree) x {{check, ignore}} x dict strategy; {STEP_TIMEOUT}s step budget",
        'evaluations': len(jobs) * 3 + len(cj) * 3, 'distinct_nontrivial': len({repr(o) for o in objs}) + ncyc, 'exhaustive': False,
        'rule': 'object graph -> every builder entry point: to_obj() equals the original (tuples as lists, sets as multisets), entry '
                'points agree, copy() == tree, shared sub-objects accepted, cyclic inputs end in ValueError or a placeholder; defining further Builder subclasses with their own handlers (4 scenarios) changes neither the stock handler tables nor any conversion',
        'failures': fails, 'samples': [repr(o) for o in objs[:3]],
    }]
