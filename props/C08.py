"""C08 - mappings are unordered, lists are ordered."""
import itertools
import random

from vlib import docs as D
from vlib import gt, walk
from vlib.par import pmap, timeout_failure

PROPERTY = 'C08'
LEVEL = 'other'
TARGETS = [('fixedkeydict', 'graphtage.FixedKeyDictNode._child_edits'), ('equality', 'sequences.SequenceNode.__eq__'), ('equality', 'graphtage.KeyValuePairNode.__lt__'), ('nodes', 'graphtage.ListNode.edits'),
           ('nodes', 'graphtage.KeyValuePairEdit.__init__')]
TRUSTED = ['DictNode.from_dict sorts the pairs (sorted() is an ordered permutation; total order on string keys) - not under contract',
           'MappingNode lookups against a ghost item list', 'C02 cost positivity for the "swap costs > 0" clause']
ASSUMPTIONS = []
EXPLANATION = (
    "Deductive: FixedKeyDictNode._child_edits pairs exactly the items with equal keys, removes exactly the source items "
    "whose key is absent from the target and inserts exactly the target items whose key is absent from the source "
    "(stated over key membership, i.e. independent of the order of either mapping); ListNode.edits is a zero-cost Match "
    "iff the child sequences are element-wise equal in order, so a swap of two unequal elements is never a Match. "
    "DictNode (multiset of pairs, canonically sorted, matcher-based) is out of reach: bounded stand-in over all key "
    "permutations at all depths of mappings with up to 4 keys x dictionary strategies (equal cost, same multiset of "
    "edits, permuted copy compares equal) and all swaps of unequal elements in lists up to length 4.")


def witnesses(func_result, ob, repo_root, tier):
    return []


def permutations_of(doc, limit=24):
    """All documents obtained by permuting the keys of every mapping (bounded)."""
    if isinstance(doc, dict):
        items = list(doc.items())
        variants = []
        sub = [permutations_of(v, 3) for _, v in items]
        for perm in itertools.islice(itertools.permutations(range(len(items))), limit):
            for combo in itertools.islice(itertools.product(*sub), 4):
                variants.append({items[i][0]: combo[i] for i in perm})
        return variants[:limit]
    if isinstance(doc, list):
        sub = [permutations_of(v, 3) for v in doc]
        return [list(c) for c in itertools.islice(itertools.product(*sub), limit)]
    return [doc]


def _summary(edit):
    """Order-independent summary of a refined edit tree: multiset of (kind, source, target, cost) of the leaf edits."""
    from collections import Counter
    out = Counter()
    for e in gt.flat_edits(edit):
        b = e.bounds()
        out[(type(e).__name__, repr(gt.canon(e.from_node)),
             repr(gt.canon(getattr(e, 'to_node', None))) if type(e).__name__ in ('Match', 'Replace') else '', b.upper_bound)] += 1
    return out


def _mixed_keys(doc):
    """Does some mapping in the document have keys of different types (only YAML / Python dicts can)?"""
    if isinstance(doc, dict):
        return len({type(k) for k in doc}) > 1 or any(_mixed_keys(v) for v in doc.values())
    if isinstance(doc, list):
        return any(_mixed_keys(v) for v in doc)
    return False


def _child_order(tree):
    import graphtage
    out = []
    for n in tree.dfs():
        if isinstance(n, graphtage.MappingNode):
            out.append(tuple(repr(k.key) for k in n.children()))
    return out


def _common_keys_self_paired(e, opt):
    """Under the 'auto' and 'none' strategies: is every key present in both mappings paired with itself, at every level?"""
    f = []
    try:
        walk.check_options  # noqa
        walk.walk(e, e.from_node, e.to_node, opt, f)
    except Exception:
        return False
    return not any(x['class'].startswith('c10-') for x in f)


def _known_mixed_key_order(a, b, a2, b2, opt, e0, e):
    """The listed finding mixed-type-key-order: LeafNode.__lt__ is not transitive across key types, so the 'canonical' child
    order of a DictNode depends on the written order; the matcher then breaks ties between UNMATCHED keys differently.  Only
    filed under it when that is all that happened: mixed key types, different child orders, and (where the strategy
    promises it) every common key still paired with itself."""
    if not (_mixed_keys(a) or _mixed_keys(b)):
        return False
    if _child_order(gt.build(a, opt)) == _child_order(gt.build(a2, opt)) and _child_order(gt.build(b, opt)) == _child_order(gt.build(b2, opt)):
        return False
    if opt['allow_key_edits'] and not opt['auto_match_keys']:
        return True     # 'match': no promise about common keys
    return _common_keys_self_paired(e0, opt) and _common_keys_self_paired(e, opt)


def _perm_job(job):
    a, b, opt = job
    fails = []
    try:
        e0 = gt.build(a, opt).edits(gt.build(b, opt))
        walk.refine(e0)
        c0, s0 = e0.bounds().upper_bound, _summary(e0)
        for a2 in permutations_of(a, 6):
            for b2 in permutations_of(b, 6):
                e = gt.build(a2, opt).edits(gt.build(b2, opt))
                walk.refine(e)
                c = e.bounds().upper_bound
                if c != c0:
                    known = _known_mixed_key_order(a, b, a2, b2, opt, e0, e)
                    fails.append({'what': f"cost {c0} for {a!r} -> {b!r} but {c} after reordering keys: {a2!r} -> {b2!r}",
                                  'class': 'c08-cost-depends-on-key-order' + (':mixed-type-key-order' if known else '')})
                    break
                if _summary(e) != s0:
                    known = _known_mixed_key_order(a, b, a2, b2, opt, e0, e)
                    fails.append({'what': f"paired/removed/inserted items change when keys are reordered: {a!r} -> {b!r} vs {a2!r} -> {b2!r}",
                                  'class': 'c08-pairing-depends-on-key-order' + (':mixed-type-key-order' if known else '')})
                    break
            if fails:
                break
        for a2 in permutations_of(a, 6)[1:]:
            e = gt.build(a, opt).edits(gt.build(a2, opt))
            walk.refine(e)
            if e.bounds().upper_bound != 0:
                fails.append({'what': f"a document and its key-permuted copy differ: {a!r} vs {a2!r} cost {e.bounds()}",
                              'class': 'c08-permuted-copy-not-equal'})
                break
    except Exception as ex:
        fails.append({'what': f"{type(ex).__name__}: {ex} [{a!r} -> {b!r}]", 'class': f'c08-exception:{type(ex).__name__}'})
    for f in fails:
        f['what'] += f" opt={opt}"
        f['input'] = {'a': a, 'b': b, 'opt': opt}
        f['replay'] = {'kind': 'perm', 'a': a, 'b': b, 'opt': opt}
    return fails


def _xml_attr_perms(spec, limit=6):
    """XML element specs (tag, attrib, text, children) with the attributes written in every order (bounded)."""
    tag, attrib, text, kids = spec
    items = list(attrib.items())
    subs = [_xml_attr_perms(k, 2) for k in kids]
    out = []
    for perm in itertools.islice(itertools.permutations(range(len(items))), limit):
        for combo in itertools.islice(itertools.product(*subs), 2):
            out.append((tag, {items[i][0]: items[i][1] for i in perm}, text, tuple(combo)))
    return out[:limit]


XML_PAIRS = [
    (('item', {'d': 'aba', 'aeb': ''}, None, ()), ('item', {'dx': 'aba', 'rpr': 'Xaba'}, None, ())),
    (('r', {'a': '1', 'b': '2', 'c': '3'}, 't', ()), ('r', {'x': '1', 'y': '2', 'c': '4'}, 't', ())),
    (('r', {'k1': 'vvvv', 'k2': 'wwww'}, None, (('s', {'p': 'q', 'm': 'n'}, 'u', ()),)),
     ('r', {'j1': 'wwww', 'j2': 'vvvv'}, None, (('s', {'pp': 'q', 'mm': 'n', 'z': ''}, 'u', ()),))),
    (('e', {'id': '7', 'name': 'alpha', 'kind': 'x'}, None, ()), ('e', {'ident': '7', 'nom': 'alpha', 'kind': 'y', 'extra': '1'}, None, ())),
]


def _xml_perm_job(job):
    """Attribute order of an XML element is not significant: cost and pairing invariant under re-ordering the attributes."""
    idx, opt = job
    a, b = XML_PAIRS[idx]
    fails = []
    try:
        e0 = gt.build_xml(a, opt).edits(gt.build_xml(b, opt))
        walk.refine(e0)
        c0, s0 = e0.bounds().upper_bound, _summary(e0)
        done = False
        for a2 in _xml_attr_perms(a):
            for b2 in _xml_attr_perms(b):
                e = gt.build_xml(a2, opt).edits(gt.build_xml(b2, opt))
                walk.refine(e)
                if e.bounds().upper_bound != c0:
                    fails.append({'what': f"XML: cost {c0} for {a!r} -> {b!r} but {e.bounds().upper_bound} with the attributes written as "
                                          f"{a2!r} -> {b2!r}", 'class': 'c08-cost-depends-on-attribute-order'})
                    done = True
                elif _summary(e) != s0:
                    fails.append({'what': f"XML: paired/removed/inserted items change with the attribute order: {a!r} -> {b!r} vs {a2!r} -> {b2!r}",
                                  'class': 'c08-pairing-depends-on-attribute-order'})
                    done = True
                if done:
                    break
            if done:
                break
        for a2 in _xml_attr_perms(a)[1:]:
            e = gt.build_xml(a, opt).edits(gt.build_xml(a2, opt))
            walk.refine(e)
            if e.bounds().upper_bound != 0:
                fails.append({'what': f"XML: an element and its attribute-permuted copy differ: {a!r} vs {a2!r}", 'class': 'c08-permuted-copy-not-equal'})
                break
    except Exception as ex:
        fails.append({'what': f"{type(ex).__name__}: {ex} [XML pair {idx}]", 'class': f'c08-exception:{type(ex).__name__}'})
    for f in fails:
        f['what'] += f" opt={opt}"
        f['input'] = {'xml_pair': idx, 'opt': opt}
        f['replay'] = {'kind': 'xmlperm', 'idx': idx, 'opt': opt}
    return fails


def _zero_size(x):
    return x is None or x == ''


def _swap_job(job):
    lst, i, j, opt = job
    fails = []
    sw = list(lst)
    sw[i], sw[j] = sw[j], sw[i]
    try:
        e = gt.build(lst, opt).edits(gt.build(sw, opt))
        walk.refine(e)
        if e.bounds().upper_bound == 0:
            both_scalar = not isinstance(lst[i], (list, dict)) and not isinstance(lst[j], (list, dict))
            if both_scalar and (_zero_size(lst[i]) or _zero_size(lst[j])):
                cls = 'c08-swap-zero-cost:zero-size-leaf'
            elif both_scalar and (str(lst[i]) == str(lst[j]) or lst[i] == lst[j]):
                cls = 'c08-swap-zero-cost:same-text-or-payload'
            else:
                cls = 'c08-swap-zero-cost'
            fails.append({'what': f"swapping the unequal elements {lst[i]!r} and {lst[j]!r} of {lst!r} costs 0", 'class': cls,
                          'input': {'list': lst, 'i': i, 'j': j, 'opt': opt}, 'replay': {'kind': 'swap', 'list': lst, 'i': i, 'j': j, 'opt': opt}})
    except Exception as ex:
        fails.append({'what': f"{type(ex).__name__}: {ex} [{lst!r}]", 'class': f'c08-exception:{type(ex).__name__}',
                      'input': {'list': lst}, 'replay': {'kind': 'swap', 'list': lst, 'i': i, 'j': j, 'opt': opt}})
    return fails


def replay(entry, repo_root):
    r = entry.get('replay') or {}
    if r.get('kind') == 'xmlperm':
        f = _xml_perm_job((r['idx'], r['opt']))
        return f[0]['what'] if f else None
    if r.get('kind') == 'perm':
        f = _perm_job((r['a'], r['b'], r['opt']))
        return f[0]['what'] if f else None
    if r.get('kind') == 'swap':
        f = _swap_job((r['list'], r['i'], r['j'], r['opt']))
        return f[0]['what'] if f else None
    return None


def bounded(tier, seed, repo_root):
    rnd = random.Random(seed)
    vals = [1, 2, "x", [1], {"k": 1}, {"k": 2, "j": 1}]
    maps = []
    for n in (1, 2, 3, 4):
        for ks in itertools.combinations(['a', 'b', 'c', 'd'], n):
            for _ in range(3 if tier == 'quick' else 12):
                maps.append({k: rnd.choice(vals) for k in ks})
    maps += [{"a": {"x": 1, "y": 2}, "b": {"y": 2, "x": 1}}, {"a": {"x": 1, "y": 3}, "c": [{"p": 1, "q": 2}]}]
    # keys that are prefixes of one another followed by a character that sorts before ':' (text order of "key: value" pairs
    # vs order of keys), numeric keys with a shared prefix, and cost ties between unmatched keys
    tricky = [{"x": 1, "x-y": 1}, {"x_y": 1}, {"x": 1, "x-y": 1, "x y": 1}, {"x.z": 1, "x/": 1}, {"line": 2, "line 2": 2},
              {"line_2": 2, "line3": 2}, {"addr": "s", "addr2": "s"}, {"addrx": "s", "add": "s"}, {1: "v", 10: "v"}, {2: "v", 11: "v"},
              {"a": 1, "a0": 1, "a-": 1}, {"b": 1, "b0": 1},
              # keys of mixed types (YAML / Python dicts): LeafNode.__lt__ falls back to comparing text and is not transitive there
              {2: "hello world, hello", 10: "goodbye moon, goodbye", "1x": "alpha beta gamma", "1y": "delta epsilon"},
              {2: "goodbye moon, goodbye", 10: "hello world, hello", "1x": "delta epsilon", "1y": "alpha beta gamma"},
              {9: "n", 10: "t", "5": "aaaaaaaaaaaa", "6": "zzzzzzzzzzzz"}, {9: "n", 10: "t", "5": "zzzzzzzzzzzz", "6": "aaaaaaaaaaaa"},
              {True: 1, 5: "five five five", "6": "six six six"}, {True: 2, 5: "six six six", "6": "five five five"},
              # distinct keys that a normalisation would identify (letter case, Unicode composition, case folding of sharp s, trailing
              # blank, numeric spelling), with equal values so that several pairings cost the same
              {"a": 1, "A": 1}, {"b": 1, "B": 1}, {"a": 1, "A": 1, "list": [1]}, {"B": 1, "b": 1, "list": [1]}, {"id": "x", "ID": "x", "Id": "x"},
              {"key": "x", "KEY": "x"}, {"\u00e9": 1, "e\u0301": 1}, {"\u00df": 1, "ss": 1, "SS": 1}, {"k": 1, "k ": 1}, {"1": 1, "01": 1, "1.0": 1}]
    pj = [(a, b, o) for a in tricky for b in tricky for o in gt.OPTION_COMBOS[:6:2] if a is not b and (tier != 'quick' or abs(tricky.index(a) - tricky.index(b)) <= 12)]
    for _ in range(700 if tier == 'quick' else 7000):
        pj.append((rnd.choice(maps), rnd.choice(maps), gt.OPTION_COMBOS[rnd.randrange(9)]))
    fails = [f for fs in pmap(_perm_job, pj, repo_root, job_timeout=60, on_timeout=timeout_failure('C08')) for f in fs]
    xj = [(i, o) for i in range(len(XML_PAIRS)) for o in gt.OPTION_COMBOS]
    fails += [f for fs in pmap(_xml_perm_job, xj, repo_root, chunksize=1, job_timeout=60, on_timeout=timeout_failure('C08')) for f in fs]
    elems = [0, 1, "a", "b", "", None, True, [1], [2], {"a": 1}]
    sj = []
    for n in (2, 3, 4):
        for lst in itertools.product(elems, repeat=n) if n == 2 else [tuple(rnd.choice(elems) for _ in range(n)) for _ in range(400 if tier == 'quick' else 4000)]:
            for i, j in itertools.combinations(range(n), 2):
                if not D.data_equal(lst[i], lst[j]):
                    sj.append((list(lst), i, j, gt.OPTION_COMBOS[rnd.randrange(9)]))
    fails += [f for fs in pmap(_swap_job, sj, repo_root, job_timeout=60, on_timeout=timeout_failure('C08')) for f in fs]
    return [{
        'name': 'C08.permutations-and-swaps', 'bound': f"{len(pj)} pairs of mappings with 1-4 keys (nested mappings included), every key "
        f"permutation (<= 6 per document) x random option combination; {len(xj)} XML element pairs x attribute orders x options; {len(sj)} swaps of unequal elements in lists of length 2-4",
        'evaluations': len(pj) + len(sj) + len(xj), 'distinct_nontrivial': len({(repr(j[0]), repr(j[1])) for j in pj}) + len({repr(j[:3]) for j in sj}),
        'exhaustive': False,
        'rule': 'mapping pair -> cost and multiset of leaf edits invariant under key reordering; permuted copy costs 0; list swap of '
                'unequal elements costs > 0',
        'failures': fails, 'samples': [{'a': j[0], 'b': j[1]} for j in pj[:3]],
    }]
