"""C15 - minimum-weight assignment is valid and optimal."""
import itertools
import random

from vlib.par import pmap, timeout_failure

PROPERTY = 'C15'
LEVEL = 'other'
TARGETS = [('matching', 'matching.get_dtype')]
TRUSTED = ['numpy dtype objects are identified by their constructor argument; np.dtype(int) is int64 on this platform',
           'scipy.optimize.linear_sum_assignment (external, float64 internally) is outside the verifier']
ASSUMPTIONS = ['weights are Python ints / floats / bools; mathematical integers in the VCs']
EXPLANATION = (
    "Deductive: matching.get_dtype is verified for all integer ranges in the documented domain: the returned numpy "
    "dtype must be able to hold [min_value, max_value] (unrolled scan of the real interval table). "
    "min_weight_bipartite_matching itself mixes itertools.product, dynamic typing of weights, numpy and scipy and is out "
    "of the VC generator's reach; it is decided by a bounded stand-in: exhaustive weight tables up to 3x3 over a "
    "boundary value set (quick: 2x2 and 2x3 exhaustive, 3x3 sampled) against brute force: one-to-one, only existing "
    "pairs, true weights, maximum cardinality and minimum total when the table is complete.")
VALUES = [0, 1, 2, -1, 255, 256, 2**31, 2**53, 2**63 - 1]


def _dtype_fail(lo, hi):
    import numpy as np
    from graphtage.matching import get_dtype
    dt = get_dtype(lo, hi)
    try:
        arr = np.array([lo, hi], dtype=dt)
        ok = int(arr[0]) == lo and int(arr[1]) == hi
    except OverflowError:
        ok = False
    if not ok:
        return f"get_dtype({lo}, {hi}) returned {dt}, which cannot hold the range"
    return None


def witnesses(func_result, ob, repo_root, tier):
    out = []
    m = (ob or {}).get('model') or {}
    cands = []
    try:
        cands.append((int(m['min_value']), int(m['max_value'])))
    except (KeyError, ValueError):
        pass
    bounds = [0, 1, -1, 127, 128, 255, 256, -128, -129, 2**15, 2**16 - 1, 2**16, 2**31, 2**32 - 1, 2**32, 2**63 - 1, 2**63, 2**64 - 1, -2**63]
    cands += [(a, b) for a in bounds for b in bounds if a <= b]
    for lo, hi in cands:
        if not (-2**63 <= lo and hi < 2**64 and lo <= hi):
            continue
        msg = _dtype_fail(lo, hi)
        if msg:
            cls = 'c15-dtype-sign-mixed-ge-2^63' if lo < 0 and hi >= 2**63 else 'c15-dtype-wrong'
            out.append({'input': {'min_value': lo, 'max_value': hi}, 'what': msg, 'class': cls,
                        'replay': {'kind': 'dtype', 'lo': lo, 'hi': hi}})
            if len(out) >= 3:
                break
    return out


def replay(entry, repo_root):
    r = entry.get('replay') or {}
    if r.get('kind') == 'dtype':
        return _dtype_fail(r['lo'], r['hi'])
    if r.get('kind') == 'table':
        f = _check_table(r['table'])
        return f[0]['what'] if f else None
    return None


def _brute(table):
    n, m = len(table), len(table[0]) if table else 0
    best = None
    k = min(n, m)
    rows = range(n)
    for rsel in itertools.combinations(rows, k):
        for cperm in itertools.permutations(range(m), k):
            if any(table[r][c] is None for r, c in zip(rsel, cperm)):
                continue
            tot = sum(table[r][c] for r, c in zip(rsel, cperm))
            if best is None or tot < best:
                best = tot
    return best


def _classify(table):
    flat = [w for row in table for w in row]
    has_none = any(w is None for w in flat)
    vals = [w for w in flat if w is not None]
    if not vals:
        return 'c15-no-edges'
    if any(abs(w) >= 2**53 for w in vals) or abs(sum(abs(w) for w in vals)) >= 2**53:
        return 'c15-ge-2^53'
    if has_none and any(w < 0 for w in vals):
        return 'c15-sparse-negative'
    if has_none and any(all(row[c] is None for row in table) for c in range(len(table[0]))):
        return 'c15-empty-column'
    if has_none:
        return 'c15-sparse'
    return 'c15-complete'


def _check_table(table):
    from graphtage.matching import min_weight_bipartite_matching
    n, m = len(table), len(table[0])
    fails = []

    def fail(kind, what):
        fails.append({'what': f"{what} [weights={table!r}]", 'class': f"{_classify(table)}:{kind}",
                      'input': {'table': table}, 'replay': {'kind': 'table', 'table': table}})
    try:
        res = min_weight_bipartite_matching(list(range(n)), list(range(m)), lambda f, t: table[f][t])
    except Exception as ex:
        fail('exception:' + type(ex).__name__, f"raised {type(ex).__name__}: {ex}")
        return fails
    tos = [t for (t, _) in res.values()]
    if len(set(tos)) != len(tos):
        fail('not-one-to-one', f"two sources share a target: {dict(res)!r}")
    for f, (t, w) in res.items():
        if not (0 <= f < n and 0 <= t < m) or table[f][t] is None:
            fail('missing-pair-used', f"uses the missing pair ({f},{t})")
            break
        if w != table[f][t] or type(w) is not type(table[f][t]):
            fail('wrong-weight', f"reports weight {w!r} for pair ({f},{t}) whose weight is {table[f][t]!r}")
            break
    if fails:
        return fails        # the result is already invalid: totals are meaningless
    if all(w is not None for row in table for w in row):
        if len(res) != min(n, m):
            fail('not-maximum', f"pairs {len(res)} items, {min(n, m)} are possible")
        else:
            tot = sum(w for (_, w) in res.values())
            best = _brute(table)
            if best is not None and tot != best:
                fail('not-minimum', f"total {tot} but the minimum is {best}")
    return fails


def bounded(tier, seed, repo_root):
    rnd = random.Random(seed)
    tables = []
    small_vals = [0, 1, 2, -1, 255, 256, None]
    for shape in ((1, 1), (1, 2), (2, 1), (2, 2)):
        for cells in itertools.product(small_vals, repeat=shape[0] * shape[1]):
            tables.append([list(cells[r * shape[1]:(r + 1) * shape[1]]) for r in range(shape[0])])
    n_s = 12000 if tier == 'quick' else 150000
    for _ in range(n_s):
        shape = rnd.choice([(2, 3), (3, 2), (3, 3), (2, 5), (4, 4), (3, 4)])
        vals = rnd.choice([VALUES, VALUES + [None], [0, 1, 2, 3, 5, 8], [True, False], [0.5, 1.5, 2.0, 0.0], [-3, -1, 0, 2, None]])
        tables.append([[rnd.choice(vals) for _ in range(shape[1])] for _ in range(shape[0])])
    # sparse tables whose weights add up to exactly the largest value of an integer width (and one either side of it): the
    # stand-in for a missing pair is then the first value that does not fit
    for k in (7, 8, 15, 16, 31, 32):
        for d in (-1, 0, 1):
            top = 2 ** k - 1 + d
            tables += [[[top, None]], [[top - 55, None], [5, 50]], [[None, top - 3], [1, 2]], [[top - 60, None, 10], [None, 20, 30]],
                       [[-1, None], [top - 1 - 766, 766]], [[-(top - 9), None], [4, 5]]]
    res = pmap(_check_table, tables, repo_root, job_timeout=20, on_timeout=timeout_failure('C15'))
    fails = [f for fs in res for f in fs]
    return [{
        'name': 'C15.brute-force', 'bound': f"all tables of shape 1x1..2x2 over {small_vals!r} (exhaustive) + {n_s} seeded tables of "
        f"shape 2x3..4x4 over boundary values {VALUES!r}, floats, bools and missing pairs + 108 sparse tables whose weights sum to 2**k - 1 (+-1) for k in 7, 8, 15, 16, 31, 32",
        'evaluations': len(tables), 'distinct_nontrivial': len({repr(t) for t in tables}), 'exhaustive': False,
        'rule': 'weight table -> min_weight_bipartite_matching: one-to-one, only existing pairs, true weights; complete tables: '
                'maximum cardinality and minimum total (brute force)',
        'failures': fails, 'samples': tables[2000:2003],
    }]
