"""C10 - matching options restrict the script as documented."""
import random

from vlib import docs as D
from vlib import gt, walk
from vlib.par import pmap, timeout_failure

PROPERTY = 'C10'
LEVEL = 'other'
TARGETS = [
    ('cli', '__main__.main'),
    ('sequences', 'sequences.FixedLengthSequenceEdit.__init__'), ('sequences', 'sequences.FixedLengthSequenceEdit.edits'),
    ('nodes', 'graphtage.KeyValuePairNode.edits'), ('nodes', 'graphtage.KeyValuePairEdit.__init__'),
    ('nodes', 'graphtage.ListNode.edits'),
    ('builders', 'builder.BasicBuilder.build_list'), ('builders', 'graphtage.ListNode.__init__'),
]
TRUSTED = ['interface E(X) for child.edits(...)', 'argparse Namespace modelled symbolically',
           'EditDistance / FixedLengthSequenceEdit constructors are used through their contracts in ListNode.edits']
ASSUMPTIONS = []
EXPLANATION = (
    "Deductive: main maps --dict-strategy / -k / -l / -ll to BuildOptions exactly as documented; ListNode.edits selects "
    "FixedLengthSequenceEdit whenever list edits are off (or off for equal lengths) and that class pairs strictly by "
    "position with only a surplus tail removed/inserted; KeyValuePairNode.edits / KeyValuePairEdit refuse cross-key "
    "pairs when key edits are disabled. Bounded stand-in (auto key pre-matching in MultiSetEdit, FixedKeyDictNode, "
    "json.build_tree flag propagation at every nesting level): tree oracle over small document pairs x 9 options.")


def witnesses(func_result, ob, repo_root, tier):
    out = []
    fn = func_result['function']
    if 'FixedLengthSequenceEdit' in fn or 'ListNode' in fn:
        lists = [[1, 2, 3], [1, 5], [], [7], [1, 2], [4, 5, 6, 7], [[1], 2]]
        for a in lists:
            for b in lists:
                for o in gt.OPTION_COMBOS:
                    fs = [f for f in _check((a, b, o)) if f['class'].startswith('c10-')]
                    if fs:
                        return fs[:1]
    if 'KeyValuePair' in fn:
        ds = [{"a": 1}, {"b": 1}, {"a": 2, "b": 1}, {"a": 1, "c": 3}]
        for a in ds:
            for b in ds:
                for o in gt.OPTION_COMBOS:
                    fs = [f for f in _check((a, b, o)) if f['class'].startswith('c10-')]
                    if fs:
                        return fs[:1]
    return out


def replay(entry, repo_root):
    r = entry.get('replay') or {}
    if r.get('kind') == 'loader':
        fs = [f for f in _loader_job((r['a'], r['b'], r['opt'])) if f['class'].startswith('c10-')]
        return fs[0]['what'] if fs else None
    if r.get('kind') == 'doc':
        fs = [f for f in _check((r['a'], r['b'], r['opt'])) if f['class'].startswith('c10-')]
        return fs[0]['what'] if fs else None
    return None


def _flags_ok(node, opt, fails, path='$'):
    """json.build_tree must propagate the options to every nesting level."""
    import graphtage
    if type(node) is graphtage.ListNode:
        if node.allow_list_edits != opt['allow_list_edits'] or \
                node.allow_list_edits_when_same_length != opt['allow_list_edits_when_same_length']:
            fails.append({'what': f"{path}: list node flags ({node.allow_list_edits}, {node.allow_list_edits_when_same_length}) "
                                  f"do not match the options {opt}", 'class': 'c10-flags-not-propagated'})
    if isinstance(node, graphtage.MappingNode):
        fixed = isinstance(node, graphtage.FixedKeyDictNode)
        if fixed != (not opt['allow_key_edits']):
            fails.append({'what': f"{path}: mapping node is {type(node).__name__} under options {opt}",
                          'class': 'c10-flags-not-propagated'})
        if not fixed and node.auto_match_keys != opt['auto_match_keys']:
            fails.append({'what': f"{path}: DictNode.auto_match_keys={node.auto_match_keys} under options {opt}",
                          'class': 'c10-flags-not-propagated'})
    for i, c in enumerate(node.children()):
        _flags_ok(c, opt, fails, f"{path}/{i}")


def _loader_job(job):
    """The file loaders hand the options to every list / mapping they build, including the list of documents of a
    multi-document YAML stream; the scripts of the loaded trees obey the restrictions."""
    import json
    import plistlib
    import graphtage
    import yaml
    a, b, opt = job
    fails = []
    tf = gt.TempFiles()
    try:
        options = graphtage.BuildOptions(**opt)
        variants = {
            'json': lambda d: (json.dumps(d).encode(), '.json'),
            'json5': lambda d: (json.dumps(d).encode(), '.json5'),
            'yaml': lambda d: (yaml.safe_dump(d).encode(), '.yml'),
            'yaml-stream': lambda d: (yaml.safe_dump_all(d if isinstance(d, list) and len(d) > 1 else [d, d]).encode(), '.yml'),
            'plist': lambda d: (plistlib.dumps(d), '.plist'),
        }
        for name, dump in variants.items():
            if name == 'plist' and ('None' in repr(a) or 'None' in repr(b) or not isinstance(a, (list, dict)) or not isinstance(b, (list, dict))):
                continue
            ft = graphtage.FILETYPES_BY_TYPENAME[name.split('-')[0]]
            (da, sa), (db, sb) = dump(a), dump(b)
            ta = ft.build_tree(tf.write(da, sa, binary=True), options)
            tb = ft.build_tree(tf.write(db, sb, binary=True), options)
            f = []
            for t in (ta, tb):
                for n in t.dfs():
                    _flags_ok(n, opt, f) if not n.children() or True else None
                    break
            ra, rb = (ta.root, tb.root) if name == 'plist' else (ta, tb)
            e = ra.edits(rb)
            walk.refine(e)
            walk.walk(e, ra, rb, opt, f)
            for x in f:
                x['what'] = f'trees loaded from {name} files: ' + x['what']
            fails.extend(f)
    except Exception as ex:
        fails.append({'what': f"{type(ex).__name__}: {ex}", 'class': f'c10-exception:{type(ex).__name__}'})
    finally:
        tf.cleanup()
    for f in fails:
        f['what'] = f"{f['what']} [{a!r} -> {b!r}, opt={opt}]"
        f['input'] = {'a': a, 'b': b, 'opt': opt}
        f['replay'] = {'kind': 'loader', 'a': a, 'b': b, 'opt': opt}
    return fails


def _check(job):
    a, b, opt = job
    fails = []
    try:
        ta, tb = gt.build(a, opt), gt.build(b, opt)
        _flags_ok(ta, opt, fails)
        e = ta.edits(tb)
        walk.refine(e)
        walk.walk(e, ta, tb, opt, fails)
        # the path TreeNode.diff() takes: the source tree is first deep-copied into Edited<Class> nodes
        ea = walk.edited(gt.build(a, opt))
        e2 = ea.edits(tb)
        walk.refine(e2)
        f2 = []
        walk.walk(e2, ea, tb, opt, f2)
        for f in f2:
            f['what'] = 'via make_edited() (the diff() path): ' + f['what']
        fails.extend(f2)
        # the other tree builders take the same options: the generic Builder (pydiff.build_tree, BasicBuilder; the pickle
        # loader goes through it too)
        import graphtage
        from graphtage import pydiff
        from graphtage.builder import BasicBuilder
        for bname, build in (('pydiff.build_tree', lambda x: pydiff.build_tree(x, graphtage.BuildOptions(**opt))),
                             ('BasicBuilder.build_tree', lambda x: BasicBuilder(graphtage.BuildOptions(**opt)).build_tree(x))):
            f3 = []
            pa, pb = build(a), build(b)
            _flags_ok(pa, opt, f3)
            e3 = pa.edits(pb)
            walk.refine(e3)
            walk.walk(e3, pa, pb, opt, f3)
            for f in f3:
                f['what'] = f'trees built by {bname}: ' + f['what']
            fails.extend(f3)
    except Exception as ex:
        fails.append({'what': f"{type(ex).__name__}: {ex}", 'class': f'c10-exception:{type(ex).__name__}'})
    for f in fails:
        f['what'] = f"{f['what']} [{a!r} -> {b!r}, opt={opt}]"
        f['input'] = {'a': a, 'b': b, 'opt': opt}
        f['replay'] = {'kind': 'doc', 'a': a, 'b': b, 'opt': opt}
    return fails


def bounded(tier, seed, repo_root):
    atoms = [0, 1, "ab", "ac", None]
    docs = D.enum_docs(4 if tier == 'quick' else 5, atoms=atoms, keys=['a', 'b', 'c'], max_width=3)
    budget = 50000 if tier == 'quick' else 500000
    pairs, exhaustive = D.sample_pairs(docs, budget, seed)
    jobs = [(a, b, gt.OPTION_COMBOS[i % 9]) for i, (a, b) in enumerate(pairs)]
    base = [{"a": 1, "b": 2, "c": 3}, {"b": 2, "d": 4}, {"a": {"a": 1, "b": 2}, "b": [1, 2]}, {"a": {"b": 2, "c": 1}, "c": [1, 2]},
            [1, 2, 3], [1, 5], [3, 2, 1], [[1, 2], [3]], [[1], [2, 3]], {"k": [1, 2, 3]}, {"k": [1, 5]}, {"x": 1, "a": 1},
            # values that moved between keys present in both mappings (a cross-key pairing is cheaper than the same-key one)
            {"alpha": "aaaaaaaaaaaaaaaa", "beta": "zzzzzzzzzzzzzzzz", "g": 1}, {"alpha": "zzzzzzzzzzzzzzzz", "beta": "aaaaaaaaaaaaaaaa", "g": 1},
            {"n": {"l": [1, 2, 3, 4, 5, 6], "r": "rrrrrrrrrrrr"}}, {"n": {"l": "rrrrrrrrrrrr", "r": [1, 2, 3, 4, 5, 6]}},
            # mixed integer / string keys as YAML allows (LeafNode.__lt__ falls back to comparing text)
            {9: "n", 10: "t", "5": "aaaaaaaaaaaa"}, {9: "n", 10: "t", "5": "zzzzzzzzzzzz", "6": "aaaaaaaaaaaa"},
            {1: "a", "1x": "b", 20: "c", "3": "d"}, {"3": "e", 20: "c", 100: "q", "1x": "bb"}]
    for a in base:
        for b in base:
            for o in gt.OPTION_COMBOS:
                jobs.append((a, b, o))
    res = pmap(_check, jobs, repo_root, job_timeout=60, on_timeout=timeout_failure('C10'))
    ldocs = [[1, 2, 3], [0, 1, 2, 3], [[1, 2], [3]], [{"a": 1}, {"a": 1, "b": 2}, {"c": [1, 2]}], {"k": [1, 2, 3], "m": {"x": 1}},
             {"k": [9, 1, 2, 3], "n": {"x": 2}}, [{"z": [5, 6]}, {"a": 1}, {"a": 1, "b": 2}]]
    lj = [(a, b, o) for a in ldocs for b in ldocs if a is not b for o in gt.OPTION_COMBOS[::2]]
    res = list(res) + list(pmap(_loader_job, lj, repo_root, job_timeout=120, on_timeout=timeout_failure('C10')))
    fails = [f for fs in res for f in fs if f['class'].startswith('c10-')]
    return [{
        'name': 'C10.option-restrictions', 'bound': f"documents <= {4 if tier == 'quick' else 5} nodes over {atoms!r}, keys a/b/c "
        f"({'all' if exhaustive else 'seeded sample of'} {len(pairs)} pairs, options cycling) + {len(base)}^2 x 9 structured pairs + {len(lj)} pairs loaded from json / json5 / yaml / multi-document yaml / plist files",
        'evaluations': len(jobs) + len(lj), 'distinct_nontrivial': len({D.key(j[0]) + D.key(j[1]) + str(sorted(j[2].items())) for j in jobs}),
        'exhaustive': False,
        'rule': "pair x options -> at every nesting level: no cross-key pair under 'none'; every common key self-paired under "
                "'auto'/'none'; lists positional + surplus tail under -l (and -ll for equal lengths); node flags equal the options",
        'failures': fails, 'samples': [{'a': j[0], 'b': j[1], 'opt': j[2]} for j in jobs[200:203]],
    }]
