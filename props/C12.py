"""C12 - printing an unedited document yields text that parses back equal."""
import itertools
import json
import plistlib
import random

from vlib import gt
from vlib.par import pmap, timeout_failure

PROPERTY = 'C12'
LEVEL = 'other'
TARGETS = [('strings', 'graphtage.StringFormatter.print_StringNode')]
TRUSTED = ['json.dumps / json.loads, csv.writer / csv.reader, yaml, plistlib, xml.etree (third-party parsers and escapers)',
           'JSON string decoding is a homomorphism on escape units (needed to lift the per-character check to strings)',
           'printer.write appends its argument to the output in call order']
ASSUMPTIONS = []
EXPLANATION = (
    "Deductive: StringFormatter.print_StringNode with the JSON string formatter emits exactly start-quote, then the "
    "escape of every character of the string in order (one write per character), then end-quote (loop VC over a ghost "
    "output log). The per-character function escape(c)=json.dumps(c)[1:-1] has a finite domain which the thorough tier "
    "enumerates completely (all 1,114,112 code points; quick: all BMP + sampled astral) against json.loads - a complete "
    "check of that function. Grammar-level round trips through the third-party parsers are out of reach: bounded "
    "stand-in build_tree -> default formatter -> build_tree for documents over a hard atom set per format (JSON/JSON5/"
    "CSV whole value domain; YAML/plist/XML alphanumeric content; XML text modulo surrounding whitespace).")
HARD = ['', 'a', 'a"b', 'a\\b', 'line\nbreak', 'tab\there', 'cr\rlf', 'comma, semi; colon: x', "single'quote", 'unicode é ü 漢字',
        'astral \U0001F600', 'ctrl \x01\x1f', ' lead and trail ', '{"json": [1]}', '~~x~~ ++y++ -> z', '  ', '</tag>&amp;']
NUMS = [0, -1, 1, 2**31, 2**63, -2**63 - 1, 10**30, 0.5, -0.0, 1e300, 1.5e-300, 123456789.123456789]
ALNUM = ['a', 'abc', 'A1', 'x9y', 'hello', 'Z']


def _prime(ft, kind):
    """Leave the formatter singletons in the state a previous rendering left them in: a diff without ANSI colour whose last
    printed string is an edited string ending in an insertion ('ins') or a removal ('rem')."""
    import graphtage
    from graphtage import json as gj
    from graphtage.printer import Printer
    a, b = ({"id": 7, "name": "abc"}, {"id": 7, "name": "abcd"}) if kind == 'ins' else (["release 10"], ["release 1"])
    try:
        d = gj.build_tree(a).diff(gj.build_tree(b))
        ft.get_default_formatter().print(Printer(gt._KeepOpen(), ansi_color=False, quiet=True), d)
    except Exception:
        pass        # (rendering JSON trees with every formatter is C13's business)


def _roundtrip(job):
    fmt, doc, suffix = job[:3]
    import graphtage
    from graphtage.printer import Printer
    fails = []
    tf = gt.TempFiles()
    try:
        ft = graphtage.FILETYPES_BY_TYPENAME[fmt]
        if len(job) > 3 and job[3]:
            _prime(ft, job[3])
        src = _dump(fmt, doc)
        p1 = tf.write(src, suffix, binary=isinstance(src, bytes))
        opt = job[4] if len(job) > 4 and job[4] else {}
        t1 = ft.build_tree(p1, graphtage.BuildOptions(**opt))
        buf = gt._KeepOpen()
        pr = Printer(buf, ansi_color=False, quiet=True)
        prior = job[5] if len(job) > 5 else None
        if prior:
            # the same Printer object was used before, for a nested document of another format
            prior, pdepth = prior.split(':')
            pdoc = {"k": "w"}
            for i in range(int(pdepth) - 1):       # (a document nested pdepth levels deep)
                pdoc = {"outer": pdoc, "k": ["w"]} if i % 2 else {"outer": [1, pdoc], "k": "w"}
            pft = graphtage.FILETYPES_BY_TYPENAME[prior]
            psrc = _dump(prior, pdoc)
            pft.get_default_formatter().print(pr, pft.build_tree(tf.write(psrc, _SUFFIX[prior], binary=isinstance(psrc, bytes)), graphtage.BuildOptions()))
            pr.newline() if hasattr(pr, 'newline') else None
        start = len(buf.getvalue())
        ft.get_default_formatter().print(pr, t1)
        text = buf.getvalue()[start:]
        p2 = tf.write(text, suffix)
        try:
            t2 = ft.build_tree(p2, graphtage.BuildOptions(**opt))
        except Exception as ex:
            fails.append({'what': f"{fmt}: printed text is rejected by the loader ({type(ex).__name__}: {str(ex)[:100]}); text {text[:120]!r}",
                          'class': f'c12-reparse-fails:{fmt}'})
            return _tag(fails, job)
        if gt.canon(t1) != gt.canon(t2):     # structural comparison (not the node classes' own __eq__, which a change could loosen)
            fails.append({'what': f"{fmt}: document re-loaded from its own printing differs: {str(t1)[:120]!r} vs {str(t2)[:120]!r} "
                                  f"(text {text[:120]!r})", 'class': f'c12-reparse-differs:{fmt}'})
    except Exception as ex:
        fails.append({'what': f"{fmt}: {type(ex).__name__}: {str(ex)[:160]} for {str(doc)[:100]!r}", 'class': f'c12-exception:{fmt}:{type(ex).__name__}'})
    finally:
        tf.cleanup()
    return _tag(fails, job)


_SUFFIX = {'json': '.json', 'json5': '.json5', 'yaml': '.yml', 'plist': '.plist'}


def _tag(fails, job):
    for f in fails:
        if len(job) > 5 and job[5]:
            f['what'] += f" [printed with a Printer object that had printed a {job[5].split(':')[0]} document nested {job[5].split(':')[1]} deep before]"
        primed = job[3] if len(job) > 3 else None
        if primed:
            f['what'] += f" [after a non-colour diff ending in a string {'insertion' if primed == 'ins' else 'removal'} was rendered by the same formatter]"
        opt = job[4] if len(job) > 4 and job[4] else None
        if opt:
            f['what'] += f" [trees built with options {opt}]"
        f['input'] = {'fmt': job[0], 'doc': repr(job[1])[:300], 'primed': primed, 'opt': opt}
        f['replay'] = {'kind': 'roundtrip', 'fmt': job[0], 'doc': job[1] if job[0] != 'xml' else None, 'suffix': job[2], 'primed': primed,
                       'opt': opt, 'prior': job[5] if len(job) > 5 else None}
    return fails


def _dump(fmt, doc):
    import yaml
    if fmt in ('json', 'json5'):
        return json.dumps(doc)
    if fmt == 'yaml':
        return yaml.safe_dump(doc)
    if fmt == 'plist':
        return plistlib.dumps(doc)
    if fmt == 'csv':
        import csv
        import io
        s = io.StringIO()
        csv.writer(s).writerows(doc)
        return s.getvalue()
    if fmt == 'xml':
        return doc
    raise ValueError(fmt)


def _escape_job(rng):
    lo, hi = rng
    from graphtage.json import JSONStringFormatter
    f = JSONStringFormatter()
    f.is_quoted = True
    bad = []
    for cp in range(lo, hi):
        c = chr(cp)
        try:
            if json.loads('"' + f.escape(c) + '"') != c:
                bad.append(cp)
        except Exception:
            bad.append(cp)
    return bad


def gen_docs(rnd, atoms, n, depth=3, keys=None):
    keys = keys or ['k', 'key two', 'é', '']

    def mk(d):
        r = rnd.random()
        if d == 0 or r < 0.4:
            return rnd.choice(atoms)
        if r < 0.7:
            return [mk(d - 1) for _ in range(rnd.randint(0, 3))]
        return {k: mk(d - 1) for k in rnd.sample(keys, rnd.randint(0, min(3, len(keys))))}
    return [mk(depth) for _ in range(n)]


def witnesses(func_result, ob, repo_root, tier):
    for s in ['a"b', 'x\\y', 'é\n', '', 'plain']:
        f = _roundtrip(('json', [s, {"k": s}], '.json'))
        if f:
            return f[:1]
    return []


def replay(entry, repo_root):
    r = entry.get('replay') or {}
    if r.get('kind') == 'roundtrip' and r.get('doc') is not None:
        f = _roundtrip((r['fmt'], r['doc'], r['suffix'], r.get('primed'), r.get('opt'), r.get('prior')))
        return f[0]['what'] if f else None
    return None


def bounded(tier, seed, repo_root):
    rnd = random.Random(seed)
    n = 250 if tier == 'quick' else 2500
    jobs = []
    json_atoms = HARD + NUMS + [None, True, False]
    for d in gen_docs(rnd, json_atoms, n) + [[], {}, [[]], [{}], {"a": {}}, [[[[[1]]]]], HARD, NUMS]:
        jobs.append(('json', d, '.json'))
        jobs.append(('json5', d, '.json5'))
    for d in gen_docs(rnd, ALNUM + [1, 22, True], n, keys=['a', 'b1', 'Key']):
        if isinstance(d, (list, dict)) and _nonempty(d):
            jobs.append(('yaml', d, '.yml'))
            jobs.append(('plist', d, '.plist'))
    cells = HARD + ['1', '2.5', 'x']
    for _ in range(n):
        rows = [[rnd.choice(cells) for _ in range(rnd.randint(1, 3))] for _ in range(rnd.randint(1, 3))]
        jobs.append(('csv', rows, '.csv'))
    for _ in range(n // 2):
        jobs.append(('xml', _xml_doc(rnd), '.xml'))
    # the same round trips after the formatter singletons were used for a non-colour diff ending in an edited string
    primed = [j + (k,) for j in rnd.sample(jobs, min(len(jobs), n)) for k in ('ins', 'rem')]
    # ... and with the trees built under every non-default combination of the build options (the CLI's -k / -l / ... flags)
    optd = [j + (None, o) for j in rnd.sample(jobs, min(len(jobs), n)) for o in gt.OPTION_COMBOS[1:]]
    # ... and printed with a Printer object that was used before for a document of another format (indentation width and other
    # per-printer settings are set by each formatter)
    shared = [j + (None, None, pf) for j in rnd.sample(jobs, min(len(jobs), n)) for pf in ('json:1', 'json:2', 'json:5', 'yaml:1', 'yaml:3', 'plist:1', 'plist:4') if pf.split(':')[0] != j[0]]
    jobs = jobs + primed + optd + shared
    fails = [f for fs in pmap(_roundtrip, jobs, repo_root, chunksize=4, job_timeout=60, on_timeout=timeout_failure('C12')) for f in fs]
    # complete check of the per-character escape function
    if tier == 'quick':
        ranges = [(i, min(i + 4096, 0x10000)) for i in range(0, 0x10000, 4096)] + [(0x1F000, 0x1F800), (0x10FF00, 0x110000)]
    else:
        ranges = [(i, min(i + 8192, 0x110000)) for i in range(0, 0x110000, 8192)]
    ranges = [(lo, hi) for lo, hi in ranges]
    bad = [cp for b in pmap(_escape_job, ranges, repo_root, chunksize=1) for cp in b]
    surrogate_ok = [cp for cp in bad if 0xD800 <= cp <= 0xDFFF]
    for cp in bad[:3]:
        fails.append({'what': f"escape(chr({cp:#x})) does not decode back to the character", 'class': 'c12-escape-not-inverse',
                      'input': {'codepoint': cp}, 'replay': None})
    ncp = sum(hi - lo for lo, hi in ranges)
    return [{
        'name': 'C12.roundtrip', 'bound': f"{len(jobs)} documents (JSON/JSON5 over a hard atom set incl. quotes, backslashes, CR/LF, control, "
        f"non-BMP characters, extreme numbers, empty containers, depth 5; YAML/plist/XML alphanumeric; CSV hard cells); escape() over "
        f"{ncp} code points ({'all' if tier != 'quick' else 'whole BMP + samples'})",
        'evaluations': len(jobs) + ncp, 'distinct_nontrivial': len({(j[0], repr(j[1])) for j in jobs}), 'exhaustive': tier != 'quick',
        'rule': 'document -> Filetype.build_tree (default and every non-default option combination) -> default formatter on Printer(ansi_color=False) -> build_tree: equal document; '
                'code point -> json.loads of the quoted escape equals the character',
        'failures': fails, 'samples': [{'fmt': j[0], 'doc': repr(j[1])[:80]} for j in jobs[:3]],
    }]


def _nonempty(d):
    if isinstance(d, list):
        return len(d) > 0 and all(_nonempty(x) for x in d)
    if isinstance(d, dict):
        return len(d) > 0 and all(_nonempty(x) for x in d.values())
    return True


def _xml_doc(rnd, depth=2):
    tag = rnd.choice(['a', 'b', 'root', 'x1'])
    attrs = ''.join(f' {k}="{rnd.choice(ALNUM)}"' for k in rnd.sample(['p', 'q'], rnd.randint(0, 2)))
    if depth == 0 or rnd.random() < 0.3:
        text = rnd.choice(['', 'text', 'abc'])
        return f"<{tag}{attrs}>{text}</{tag}>"
    kids = ''.join(_xml_doc(rnd, depth - 1) for _ in range(rnd.randint(0, 3)))
    return f"<{tag}{attrs}>{kids}</{tag}>"
