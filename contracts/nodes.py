"""Node-level edits(): which edit class is chosen and what it covers (C10, C02 per-class step, interface E(X))."""
from pyvc.spec import Registry, LoopSpec
from .core import REG as CORE
from .bounded import REG as BND
from .sequences import REG as SEQ

REG = Registry().merged(CORE).merged(BND).merged(SEQ)
REG.fields(allow_list_edits='bool', allow_list_edits_when_same_length='bool', penalty='int',
           object='str')   # the payload of a leaf is modelled by its text str(object) (exact for StringNode)
WF = lambda e: f'(0 <= {e}.lb and {e}.lb <= {e}.final and {e}.final <= {e}.ub and {e}.fuel >= 0)'

REG.contract('TreeNode.is_leaf', params={'self': 'ref[TreeNode]'}, returns='bool', virtual=True, pure=True,
             trusted='is_leaf: pure property of a node')

# ------------------------------------------------------------------------------------------------ KeyValuePairEdit.__init__
REG.contract(
    'KeyValuePairEdit.__init__', self_cls='KeyValuePairEdit', allocates=True,
    params={'self': 'ref[KeyValuePairEdit]', 'from_kvp': 'ref[KeyValuePairNode]', 'to_kvp': 'ref[KeyValuePairNode]'},
    # keys that differ are only ever paired when key edits are allowed (C10)
    raises={'ValueError': 'not eqv(from_kvp.key, to_kvp.key) and not from_kvp.allow_key_edits'},
    modifies=['key_edit@self', 'value_edit@self', 'from_node@self', 'to_node@self', '_constant_cost@self',
              '_cost_upper_bound@self', '_valid@self', 'initial_bounds@self'],
    ensures=[
        'self.from_node == from_kvp and self.to_node == to_kvp',
        'self.key_edit.from_node == from_kvp.key and self.key_edit.to_node == to_kvp.key',
        'self.value_edit.from_node == from_kvp.value and self.value_edit.to_node == to_kvp.value',
        'self.key_edit != self.value_edit', WF('self.key_edit'), WF('self.value_edit'),
        # equal components cost nothing (C02 per-class step)
        'implies(eqv(from_kvp.key, to_kvp.key), self.key_edit.lb == 0 and self.key_edit.ub == 0)',
        'implies(eqv(from_kvp.value, to_kvp.value), self.value_edit.lb == 0 and self.value_edit.ub == 0)',
        'eqv(from_kvp.key, to_kvp.key) or from_kvp.allow_key_edits',
    ])

# ------------------------------------------------------------------------------------------------ KeyValuePairNode.edits
REG.contract(
    'KeyValuePairNode.edits', params={'self': 'ref[KeyValuePairNode]', 'node': 'ref[TreeNode]'}, returns='ref[Edit]',
    allocates=True,
    ensures=[
        'result.from_node == self and result.to_node == node', 'isnew(result)',
        # a partner that is not a pair (a mapping compared with a multiset of other nodes, e.g. a Python dict with a set)
        # replaces the pair (repository fix 6e3e961; before it this case raised RuntimeError and crashed the comparison)
        'implies(not isinstance(node, KeyValuePairNode), typeis(result, "Replace"))',
        # a pair edit over two different keys exists only when key edits are allowed; otherwise wholesale Replace
        'implies(isinstance(node, KeyValuePairNode) and not self.allow_key_edits and not eqv(self.key, node.key), typeis(result, "Replace"))',
        'implies(isinstance(node, KeyValuePairNode) and (self.allow_key_edits or eqv(self.key, node.key)), typeis(result, "KeyValuePairEdit"))',
        'not isinstance(result, Remove) and not isinstance(result, Insert)',
    ])

# ------------------------------------------------------------------------------------------------ ListNode.edits
REG.contract('EditDistance.__init__', self_cls='EditDistance', allocates=True,
             params={'self': 'ref[EditDistance]', 'from_node': 'ref[SequenceNode]', 'to_node': 'ref[SequenceNode]',
                     'from_seq': 'tupleseq[ref[TreeNode]]', 'to_seq': 'tupleseq[ref[TreeNode]]',
                     'insert_remove_penalty': 'int'},
             requires=['insert_remove_penalty >= 0'],
             ensures=['self.from_node == from_node and self.to_node == to_node', 'self.penalty == insert_remove_penalty'],
             trusted='EditDistance.__init__ is used through this (weak) contract in ListNode.edits; its own verification '
                     'is the target levenshtein.EditDistance.__init__ where listed')
SAME = 'seqeqv(self._children, node._children)'
REG.macro('seqeqv', ['a', 'b'], 'len(a) == len(b) and forall(q, 0, len(a), eqv(a[q], b[q]))')
POSITIONAL = ('(not self.allow_list_edits or (len(self._children) == len(node._children) and '
              '(not self.allow_list_edits_when_same_length or len(self._children) == 1)))')
REG.contract(
    'ListNode.edits', params={'self': 'ref[ListNode]', 'node': 'ref[TreeNode]'}, returns='ref[Edit]', allocates=True,
    ensures=[
        'result.from_node == self and result.to_node == node', 'isnew(result)',
        'not isinstance(result, Remove) and not isinstance(result, Insert)',
        'implies(not isinstance(node, ListNode), typeis(result, "Replace"))',
        # equal child sequences <=> Match of cost 0 (C02 / C08: lists compare positionally)
        f'implies(isinstance(node, ListNode), iff(typeis(result, "Match"), {SAME}))',
        'implies(typeis(result, "Match"), result._constant_cost == 0)',
        # C10: with list edits disabled (always, or for equal lengths) the strictly positional edit class is chosen
        f'implies(isinstance(node, ListNode) and not {SAME} and {POSITIONAL}, typeis(result, "FixedLengthSequenceEdit"))',
        f'implies(isinstance(node, ListNode) and not {SAME} and not {POSITIONAL}, typeis(result, "EditDistance"))',
    ])

# ------------------------------------------------------------------------------------------------ leaves
REG.contract('levenshtein.levenshtein_distance', params={'s': 'str', 't': 'str'}, returns='int', pure=True,
             ensures=['iff(result == 0, seqeq(s, t))', 'result >= 0'],
             note='proved in contracts/levenshtein_distance.py')
REG.contract(
    'LeafNode.edits', params={'self': 'ref[LeafNode]', 'node': 'ref[TreeNode]'}, returns='ref[Edit]', allocates=True,
    requires=['isinstance(node, LeafNode) or isinstance(node, ContainerNode)'],
    ensures=[
        'result.from_node == self and result.to_node == node',
        'implies(isinstance(node, LeafNode), typeis(result, "Match") and '
        'iff(result._constant_cost == 0, seqeq(self.object, node.object)))',
        'implies(not isinstance(node, LeafNode), typeis(result, "Replace") and result._constant_cost >= 1)',
    ])
REG.contract(
    'NullNode.edits', params={'self': 'ref[NullNode]', 'node': 'ref[TreeNode]'}, returns='ref[Edit]', allocates=True,
    ensures=['result.from_node == self and result.to_node == node',
             'implies(isinstance(node, NullNode), typeis(result, "Match") and result._constant_cost == 0)',
             'implies(not isinstance(node, NullNode), typeis(result, "Replace") and result._constant_cost >= 1)'])
REG.targets = ['graphtage.KeyValuePairEdit.__init__', 'graphtage.KeyValuePairNode.edits', 'graphtage.ListNode.edits',
               'graphtage.LeafNode.edits', 'graphtage.NullNode.edits']

# ------------------------------------------------------------------------------------------------ StringNode.edits (C11, C02)
# The per-character instance of the string edit distance is built from these pair edits: cost 0 exactly for equal text,
# cost 1 for two different single characters; longer different strings get a StringEdit.
REG.contract('StringEdit.__init__', self_cls='StringEdit', allocates=True,
             params={'self': 'ref[StringEdit]', 'from_node': 'ref[StringNode]', 'to_node': 'ref[StringNode]'},
             ensures=['self.from_node == from_node and self.to_node == to_node'],
             modifies=['from_node@self', 'to_node@self', '_constant_cost@self', '_cost_upper_bound@self', '_valid@self',
                       'initial_bounds@self', 'edit_distance@self'],
             trusted='StringEdit.__init__: builds string_edit_distance(from_node.object, to_node.object) (C11 bounded stand-in)')
REG.contract(
    'StringNode.edits', params={'self': 'ref[StringNode]', 'node': 'ref[TreeNode]'}, returns='ref[Edit]', allocates=True,
    requires=['isinstance(node, LeafNode) or isinstance(node, ContainerNode)'],
    ensures=[
        'result.from_node == self and result.to_node == node',
        'implies(isinstance(node, StringNode) and seqeq(self.object, node.object), '
        'typeis(result, "Match") and result._constant_cost == 0)',
        'implies(isinstance(node, StringNode) and not seqeq(self.object, node.object) and len(self.object) == 1 '
        'and len(node.object) == 1, typeis(result, "Match") and result._constant_cost == 1)',
        'implies(isinstance(node, StringNode) and not seqeq(self.object, node.object) and not (len(self.object) == 1 '
        'and len(node.object) == 1), typeis(result, "StringEdit"))',
        'implies(not isinstance(node, StringNode) and isinstance(node, LeafNode), typeis(result, "Match") and '
        'iff(result._constant_cost == 0, seqeq(self.object, node.object)))',
        'implies(not isinstance(node, LeafNode), typeis(result, "Replace") and result._constant_cost >= 1)',
    ])
REG.targets.append('graphtage.StringNode.edits')
