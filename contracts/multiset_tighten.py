"""Protocol B for MultiSetEdit.tighten_bounds (per-child form, like FixedLengthSequenceEdit): the automatically matched key/value
edits are refined first, in order; then the bipartite matcher.  Nothing widens, `True` means one constituent strictly shrank (its
measure decreased, no other measure increased), `False` means every constituent - each matched pair edit and the matcher - is
definitive.  The lifting to MultiSetEdit.bounds() (= matcher + sum of pair edits + a constant for the unmatched surplus) is the
stated paper step "a sum of pointwise-monotone terms is monotone, strictly if one is"."""
from pyvc.spec import Registry, LoopSpec
from .core import REG as CORE

REG = Registry().merged(CORE)
REG.fields(_matched_kvp_edits='list[ref[Edit]]', _matcher='ref[Edit]')
WF = lambda e: f'(0 <= {e}.lb and {e}.lb <= {e}.final and {e}.final <= {e}.ub and {e}.fuel >= 0)'
K = 'self._matched_kvp_edits'
M = 'self._matcher'
SUBWF = f'forall(i, 0, len({K}), ' + WF(f'{K}[i]') + ')'
DISTINCT = (f'forall(i, 0, len({K}), forall(k, 0, len({K}), implies(i != k, {K}[i] != {K}[k])))'
            f' and forall(i, 0, len({K}), {K}[i] != {M})')
MONO = (f'forall(i, 0, len({K}), old({K}[i].lb) <= {K}[i].lb and {K}[i].ub <= old({K}[i].ub))'
        f' and old({M}.lb) <= {M}.lb and {M}.ub <= old({M}.ub)')
FUELS = f'forall(i, 0, len({K}), {K}[i].fuel <= old({K}[i].fuel)) and {M}.fuel <= old({M}.fuel)'
REG.contract(
    'MultiSetEdit.tighten_bounds', params={'self': 'ref[MultiSetEdit]'}, returns='bool',
    requires=[SUBWF, WF(M), DISTINCT],
    modifies=['lb', 'ub', 'fuel'],
    ensures=[
        SUBWF, WF(M), MONO, FUELS,
        'implies(result, '
        f'exists(p, 0, len({K}), ({K}[p].lb > old({K}[p].lb) or {K}[p].ub < old({K}[p].ub)) and {K}[p].fuel < old({K}[p].fuel))'
        f' or (({M}.lb > old({M}.lb) or {M}.ub < old({M}.ub)) and {M}.fuel < old({M}.fuel)))',
        f'implies(not result, forall(i, 0, len({K}), {K}[i].lb == {K}[i].ub) and {M}.lb == {M}.ub)',
    ],
    loops={0: LoopSpec(index='j', modifies=['lb', 'ub', 'fuel'], invariant=[
        SUBWF, WF(M), MONO, FUELS,
        f'forall(i, 0, j, {K}[i].lb == {K}[i].ub)',
        f'old({K}) == {K}', f'old({M}) == {M}',
    ])})
REG.targets = ['multiset.MultiSetEdit.tighten_bounds']
