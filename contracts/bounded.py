"""Bounded protocol B (DESIGN 5) proved per implementer: Range arithmetic, constant-cost edits, KeyValuePairEdit,
FixedLengthSequenceEdit (per-child form), repeat_until_tightened, BoundedComparator, min_bounded, has_non_zero_cost."""
from pyvc.spec import Registry, LoopSpec
from .core import REG as CORE

REG = Registry().merged(CORE)
REG.fields(bounded='ref[Edit]')

# ------------------------------------------------------------------------------------------------ Range
R = 'rec[Range]'
REG.contract('Range.dominates', params={'self': R, 'other': R}, returns='bool', pure=True,
             ensures=['result == (self.upper_bound <= other.lower_bound)'])
REG.contract('Range.definitive', params={'self': R}, returns='bool', pure=True,
             ensures=['result == (self.lower_bound == self.upper_bound)'])
REG.contract('Range.__eq__', params={'self': R, 'other': R}, returns='bool', pure=True,
             ensures=['result == (self.lower_bound == other.lower_bound and self.upper_bound == other.upper_bound)'])
REG.contract('Range.__lt__', params={'self': R, 'other': R}, returns='bool', pure=True,
             ensures=['result == (self.upper_bound < other.upper_bound or '
                      '(self.upper_bound == other.upper_bound and self.lower_bound < other.lower_bound))'])
REG.contract('Range.__contains__', params={'self': R, 'subrange': R}, returns='bool', pure=True,
             ensures=['result == (self.lower_bound <= subrange.lower_bound and subrange.upper_bound <= self.upper_bound)'])
REG.contract('Range.__add__', params={'self': R, 'other': R}, returns=R, pure=True,
             requires=['self.lower_bound <= self.upper_bound', 'other.lower_bound <= other.upper_bound'],
             ensures=['result.lower_bound == self.lower_bound + other.lower_bound',
                      'result.upper_bound == self.upper_bound + other.upper_bound'])
REG.contract('Range.finite', params={'self': R}, returns='bool', pure=True, ensures=['result'])
RANGE_TARGETS = ['bounds.Range.dominates', 'bounds.Range.definitive', 'bounds.Range.__eq__', 'bounds.Range.__lt__',
                 'bounds.Range.__contains__', 'bounds.Range.__add__', 'bounds.Range.finite']

# ------------------------------------------------------------------------------------------------ constant-cost edits
REG.contract('AbstractEdit.bounds', params={'self': 'ref[AbstractEdit]'}, returns=R, pure=True,
             requires=['notnone(self._cost_upper_bound)', 'self._constant_cost <= self._cost_upper_bound'],
             ensures=['result.lower_bound == self._constant_cost', 'result.upper_bound == self._cost_upper_bound'])
REG.contract('ConstantCostEdit.tighten_bounds', params={'self': 'ref[ConstantCostEdit]'}, returns='bool', pure=True,
             ensures=['not result'])

# ------------------------------------------------------------------------------------------------ KeyValuePairEdit
WF = lambda e: f'(0 <= {e}.lb and {e}.lb <= {e}.final and {e}.final <= {e}.ub and {e}.fuel >= 0)'
KV_PRE = [WF('self.key_edit'), WF('self.value_edit'), 'self.key_edit != self.value_edit']
REG.macro('kvL', ['e'], 'e.key_edit.lb + e.value_edit.lb')
REG.macro('kvU', ['e'], 'e.key_edit.ub + e.value_edit.ub')
REG.macro('kvF', ['e'], 'e.key_edit.final + e.value_edit.final')
REG.macro('kvFuel', ['e'], 'e.key_edit.fuel + e.value_edit.fuel')
REG.contract('KeyValuePairEdit.bounds', params={'self': 'ref[KeyValuePairEdit]'}, returns=R, pure=True,
             requires=KV_PRE,
             ensures=['result.lower_bound == kvL(self)', 'result.upper_bound == kvU(self)'])
REG.contract('KeyValuePairEdit.tighten_bounds', params={'self': 'ref[KeyValuePairEdit]'}, returns='bool',
             requires=KV_PRE,
             modifies=['lb@self.key_edit', 'ub@self.key_edit', 'fuel@self.key_edit',
                       'lb@self.value_edit', 'ub@self.value_edit', 'fuel@self.value_edit'],
             ensures=[
                 # never widens, stays sound
                 'old(kvL(self)) <= kvL(self)', 'kvL(self) <= kvF(self)', 'kvF(self) <= kvU(self)', 'kvU(self) <= old(kvU(self))',
                 # progress => strictly shrunk (and the termination measure decreased)
                 'implies(result, (kvL(self) > old(kvL(self)) or kvU(self) < old(kvU(self))) and kvFuel(self) < old(kvFuel(self)))',
                 # no progress only once definitive
                 'implies(not result, kvL(self) == kvU(self))',
                 WF('self.key_edit'), WF('self.value_edit'),
             ])
REG.contract('KeyValuePairEdit.edits', params={'self': 'ref[KeyValuePairEdit]'}, yields='ref[Edit]',
             ensures=['len(result) == 2', 'result[0] == self.key_edit', 'result[1] == self.value_edit'])

# ------------------------------------------------------------------------------------------------ FixedLengthSequenceEdit
SUBWF = 'forall(i, 0, len(self._sub_edits), ' + WF('self._sub_edits[i]') + ')'
DISTINCT = 'forall(i, 0, len(self._sub_edits), forall(k, 0, len(self._sub_edits), implies(i != k, self._sub_edits[i] != self._sub_edits[k])))'
MONO = ('forall(i, 0, len(self._sub_edits), old(self._sub_edits[i].lb) <= self._sub_edits[i].lb '
        'and self._sub_edits[i].ub <= old(self._sub_edits[i].ub))')
REG.contract(
    'FixedLengthSequenceEdit.tighten_bounds', params={'self': 'ref[FixedLengthSequenceEdit]'}, returns='bool',
    requires=[SUBWF, DISTINCT],
    modifies=['lb', 'ub', 'fuel'],
    ensures=[
        SUBWF, MONO,
        # progress: one positional sub-edit strictly shrank, its measure decreased, earlier ones are definitive,
        # later ones untouched
        'implies(result, exists(p, 0, len(self._sub_edits), '
        '(self._sub_edits[p].lb > old(self._sub_edits[p].lb) or self._sub_edits[p].ub < old(self._sub_edits[p].ub)) '
        'and self._sub_edits[p].fuel < old(self._sub_edits[p].fuel) '
        'and forall(i, 0, len(self._sub_edits), implies(i != p, self._sub_edits[i].fuel <= old(self._sub_edits[i].fuel)))))',
        'implies(not result, forall(i, 0, len(self._sub_edits), self._sub_edits[i].lb == self._sub_edits[i].ub))',
    ],
    loops={0: LoopSpec(index='j', modifies=['lb', 'ub', 'fuel'], invariant=[
        SUBWF, MONO,
        'forall(i, 0, j, self._sub_edits[i].lb == self._sub_edits[i].ub)',
        'forall(i, 0, len(self._sub_edits), self._sub_edits[i].fuel <= old(self._sub_edits[i].fuel))',
        'old(self._sub_edits) == self._sub_edits',
    ])},
    note='undecorated body of tighten_bounds (the function object that @repeat_until_tightened wraps); per-child form: '
         'the lifting to the sum is the stated paper step "a sum of pointwise-monotone terms is monotone, strictly if one is"')

# ------------------------------------------------------------------------------------------------ repeat_until_tightened
# abstract step contract of the wrapped function (what each wrapped body must provide)
REG.contract('$step', params={'self': 'ref[Edit]'}, returns='bool',
             requires=[WF('self')], modifies=['lb@self', 'ub@self', 'fuel@self'],
             ensures=['old(self.lb) <= self.lb', 'self.lb <= self.final', 'self.final <= self.ub', 'self.ub <= old(self.ub)',
                      'self.fuel >= 0', 'self.fuel <= old(self.fuel)',
                      'self.lb > old(self.lb) or self.ub < old(self.ub) or self.lb == self.ub or self.fuel < old(self.fuel)'],
             trusted='abstract obligation on any function wrapped by @repeat_until_tightened: one call never widens, stays '
                     'sound and either shrinks the range, makes it definitive or decreases the termination measure')
REG.contract(
    'bounds.repeat_until_tightened.wrapper', params={'self': 'ref[Edit]'}, returns='bool',
    locals={'func': 'func:$step'},
    requires=[WF('self')], modifies=['lb@self', 'ub@self', 'fuel@self'],
    ensures=[
        'old(self.lb) <= self.lb', 'self.lb <= self.final', 'self.final <= self.ub', 'self.ub <= old(self.ub)',
        'implies(result, self.lb > old(self.lb) or self.ub < old(self.ub))',
        'implies(not result, self.lb == self.ub)',
        'iff(result, old(self.lb) != old(self.ub))',
        'self.fuel >= 0',
    ],
    loops={0: LoopSpec(variant='self.fuel', modifies=['lb@self', 'ub@self', 'fuel@self'], invariant=[
        WF('self'), 'old(self.lb) != old(self.ub)',
        'self.lb == old(self.lb) and self.ub == old(self.ub)',
        'starting_bounds.lower_bound == old(self.lb) and starting_bounds.upper_bound == old(self.ub)',
    ])})

# ------------------------------------------------------------------------------------------------ has_non_zero_cost
REG.contract('Edit.has_non_zero_cost', params={'self': 'ref[Edit]'}, returns='bool',
             requires=[WF('self')], modifies=['lb@self', 'ub@self', 'fuel@self'],
             ensures=['result == (self.final > 0)', 'old(self.lb) <= self.lb', 'self.ub <= old(self.ub)',
                      'self.lb <= self.final and self.final <= self.ub'],
             loops={0: LoopSpec(variant='self.fuel', modifies=['lb@self', 'ub@self', 'fuel@self'],
                                invariant=[WF('self'), 'old(self.lb) <= self.lb', 'self.ub <= old(self.ub)'])})

# ------------------------------------------------------------------------------------------------ BoundedComparator
BC_PRE = [WF('self.bounded'), WF('other.bounded')]
REG.contract('BoundedComparator.__lt__', params={'self': 'ref[BoundedComparator]', 'other': 'ref[BoundedComparator]'},
             returns='bool', requires=BC_PRE + ['self.bounded != other.bounded'],
             modifies=['lb@self.bounded', 'ub@self.bounded', 'fuel@self.bounded',
                       'lb@other.bounded', 'ub@other.bounded', 'fuel@other.bounded'],
             ensures=['implies(result, self.bounded.final <= other.bounded.final)',
                      'implies(not result, other.bounded.final <= self.bounded.final)',
                      WF('self.bounded'), WF('other.bounded'),
                      'old(self.bounded.lb) <= self.bounded.lb and self.bounded.ub <= old(self.bounded.ub)',
                      'old(other.bounded.lb) <= other.bounded.lb and other.bounded.ub <= old(other.bounded.ub)'],
             loops={0: LoopSpec(variant='self.bounded.fuel + other.bounded.fuel',
                                modifies=['lb@self.bounded', 'ub@self.bounded', 'fuel@self.bounded',
                                          'lb@other.bounded', 'ub@other.bounded', 'fuel@other.bounded'], invariant=[
                 WF('self.bounded'), WF('other.bounded'),
                 'old(self.bounded.lb) <= self.bounded.lb and self.bounded.ub <= old(self.bounded.ub)',
                 'old(other.bounded.lb) <= other.bounded.lb and other.bounded.ub <= old(other.bounded.ub)'])})

REG.targets = RANGE_TARGETS + [
    'edits.AbstractEdit.bounds', 'edits.ConstantCostEdit.tighten_bounds',
    'graphtage.KeyValuePairEdit.bounds', 'graphtage.KeyValuePairEdit.tighten_bounds', 'graphtage.KeyValuePairEdit.edits',
    'sequences.FixedLengthSequenceEdit.tighten_bounds', 'bounds.repeat_until_tightened.wrapper',
    'tree.Edit.has_non_zero_cost', 'bounds.BoundedComparator.__lt__',
]

# ------------------------------------------------------------------------------------------------ BoundedComparator.__le__, min_bounded
REG.contract('BoundedComparator.__le__', params={'self': 'ref[BoundedComparator]', 'other': 'ref[BoundedComparator]'},
             returns='bool', requires=BC_PRE + ['self.bounded != other.bounded'],
             modifies=['lb@self.bounded', 'ub@self.bounded', 'fuel@self.bounded',
                       'lb@other.bounded', 'ub@other.bounded', 'fuel@other.bounded'],
             ensures=['implies(result, self.bounded.final <= other.bounded.final)',
                      'implies(not result, other.bounded.final <= self.bounded.final)',
                      WF('self.bounded'), WF('other.bounded')],
             loops={0: LoopSpec(variant='self.bounded.fuel + other.bounded.fuel',
                                modifies=['lb@self.bounded', 'ub@self.bounded', 'fuel@self.bounded',
                                          'lb@other.bounded', 'ub@other.bounded', 'fuel@other.bounded'],
                                invariant=[WF('self.bounded'), WF('other.bounded'),
                                           'implies(lt_result, self.bounded.final <= other.bounded.final)' if False else 'True'])})
REG.targets += ['bounds.BoundedComparator.__le__']
