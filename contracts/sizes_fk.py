"""Size lemma, FixedKeyDictNode step: it inherits SequenceNode.calculate_total_size, whose `for c in self` runs the class's own
`__iter__` (the values of the insertion-ordered `_children` dict): the size is the sum of (size(pair) + 1) over the stored pairs."""
from pyvc.spec import Registry
from .common import REG as COMMON

REG = Registry().merged(COMMON)
REG.fields(**{'FixedKeyDictNode._children': 'dict[ref[TreeNode],ref[KeyValuePairNode]]'})
REG.uf('size', 'int', 'int')
REG.contract('TreeNode.total_size', params={'self': 'ref[TreeNode]'}, returns='int', virtual=True, pure=True,
             ensures=['result == size(self)', 'result >= 0'],
             trusted='induction hypothesis of the size lemma: total_size of a child is non-negative')
S = 'self._children'
REG.contract('SequenceNode.calculate_total_size', params={'self': 'ref[FixedKeyDictNode]'}, returns='int',
             self_cls='FixedKeyDictNode',
             ensures=[f'result == sumof(k, 0, len({S}), size({S}[k][1]) + 1)', f'result >= len({S})'])
REG.targets = ['sequences.SequenceNode.calculate_total_size']
