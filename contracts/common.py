"""Shared vocabulary: dropped names, field types, uninterpreted functions."""
from pyvc.spec import Registry

REG = Registry()
# extraction drops logging and progress plumbing (DESIGN 2.2)
REG.opaque_names |= {'log', 'DEFAULT_PRINTER', 'logging'}
