"""Size lemma, MultiSetNode / DictNode step: `sum((c.total_size + 1) * count for c, count in self._children.items())` over the Counter
of children.  Precondition (Counter invariant kept by the constructor): every stored count is positive."""
from pyvc.spec import Registry
from .common import REG as COMMON

REG = Registry().merged(COMMON)
REG.fields(**{'MultiSetNode._children': 'dict[ref[TreeNode],int]'})
REG.uf('size', 'int', 'int')
REG.contract('TreeNode.total_size', params={'self': 'ref[TreeNode]'}, returns='int', virtual=True, pure=True,
             ensures=['result == size(self)', 'result >= 0'],
             trusted='induction hypothesis of the size lemma: total_size of a child is non-negative')
S = 'self._children'
REG.contract('MultiSetNode.calculate_total_size', params={'self': 'ref[MultiSetNode]'}, returns='int',
             requires=[f'forall(q, 0, len({S}), {S}[q][1] >= 1)'],
             ensures=[f'result == sumof(k, 0, len({S}), (size({S}[k][0]) + 1) * {S}[k][1])', 'result >= 0',
                      f'result >= len({S})'])
REG.targets = ['graphtage.MultiSetNode.calculate_total_size']
