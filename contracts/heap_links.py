"""C16: the pointer surgery of the Fibonacci heap, one step at a time (straight-line code: complete proofs of the local
steps).  _append_root / _remove_root splice the root ring, add_child / remove_child the child ring, _link and _cut move a
node between them and reset parent and mark, _extract_min detaches every child of the removed root (no node keeps a parent
pointer to it) and keeps the size in step.  Each function's frame (keys, deleted flags, _min, _n untouched unless stated)
is verified, replacing the trusted frames of contracts/heap.py."""
from pyvc.spec import Registry, LoopSpec
from .heap import REG as HEAP

REG = Registry().merged(HEAP)
H, N = 'ref[FibonacciHeap]', 'ref[HeapNode]'
OTHERS = lambda excl: ('forall_ref(n, implies(' + ' and '.join(f'n != {e}' for e in excl) +
                       ', n.left == old(n.left) and n.right == old(n.right)))')

# links that were set stay set (none of the splices writes None into a ring pointer)
KEEP = 'forall_ref(n, implies(old(n.left) != None, n.left != None) and implies(old(n.right) != None, n.right != None))'

REG.contract(
    'FibonacciHeap._append_root', params={'self': H, 'node': N},
    requires=['node != None', 'implies(self._root != None, self._root.right != None)'],
    modifies=['_root@self', 'left', 'right'],
    ensures=[
        'implies(old(self._root) == None, self._root == node and node.left == old(node.left) and node.right == old(node.right))',
        'implies(old(self._root) != None, self._root == old(self._root))',
        # spliced in right after the root (when the node is not already one of the two ring neighbours involved)
        'implies(old(self._root) != None and node != old(self._root) and node != old(self._root.right), '
        'node.left == old(self._root) and node.right == old(self._root.right) and old(self._root).right == node '
        'and old(self._root.right).left == node)',
        'implies(old(self._root) != None, ' + OTHERS(['node', 'old(self._root)', 'old(self._root.right)']) + ')',
        'implies(old(self._root) == None, forall_ref(n, n.left == old(n.left) and n.right == old(n.right)))',
        KEEP,
    ])
REG.contract(
    'FibonacciHeap._remove_root', params={'self': H, 'node': N},
    requires=['node != None', 'node.left != None', 'node.right != None'],
    modifies=['_root@self', 'left', 'right'],
    ensures=[
        'implies(old(self._root) == node, self._root == old(node.right))',
        'implies(old(self._root) != node, self._root == old(self._root))',
        # the two neighbours are joined (a one-element ring stays as it is)
        'implies(old(node.left) != node, old(node.left).right == old(node.right) and old(node.right).left == old(node.left))',
        'implies(old(node.left) != node and old(node.right) != node, node.left == old(node.left) and node.right == old(node.right))',
        OTHERS(['node', 'old(node.left)', 'old(node.right)']),
        KEEP,
    ])
REG.contract(
    'HeapNode.add_child', params={'self': N, 'node': N},
    requires=['node != None', 'node != self', 'implies(self.child != None, self.child.right != None)'],
    modifies=['child@self', 'degree@self', 'left', 'right'],
    ensures=[
        'self.degree == old(self.degree) + 1',
        'implies(old(self.child) == None, self.child == node)',
        'implies(old(self.child) != None, self.child == old(self.child))',
        'implies(old(self.child) != None and node != old(self.child) and node != old(self.child.right), '
        'node.left == old(self.child) and node.right == old(self.child.right) and old(self.child).right == node '
        'and old(self.child.right).left == node)',
        'implies(old(self.child) == None, forall_ref(n, n.left == old(n.left) and n.right == old(n.right)))',
        'implies(old(self.child) != None, ' + OTHERS(['node', 'old(self.child)', 'old(self.child.right)']) + ')',
        KEEP,
    ])
REG.contract(
    'HeapNode.remove_child', params={'self': N, 'node': N},
    requires=['node != None', 'self.child != None', 'self.child.right != None', 'node.left != None', 'node.right != None'],
    modifies=['child@self', 'degree@self', 'left', 'right', 'parent'],
    ensures=[
        'self.degree == old(self.degree) - 1',
        'implies(old(self.child) == old(self.child.right), self.child == None)',
        'implies(old(self.child) != old(self.child.right) and old(self.child) == node, self.child == old(node.right))',
        'implies(old(self.child) != old(self.child.right) and old(self.child) != node, self.child == old(self.child))',
        'implies(old(node.left) != node, old(node.left).right == old(node.right) and old(node.right).left == old(node.left))',
        # only the new first child may get its parent pointer (re)written, to self
        'forall_ref(n, n.parent == old(n.parent) or (n == old(node.right) and n.parent == self))',
        OTHERS(['node', 'old(node.left)', 'old(node.right)']),
        KEEP,
    ])
REG.contract(
    'FibonacciHeap._link', params={'self': H, 'y': N, 'x': N},
    requires=['x != None', 'y != None', 'x != y', 'y.left != None', 'y.right != None',
              'implies(x.child != None, x.child.right != None)'],
    modifies=['_root@self', 'left', 'right', 'child@x', 'degree@x', 'parent@y', 'mark@y'],
    ensures=['y.parent == x', 'not y.mark', 'x.degree == old(x.degree) + 1',
             'implies(old(x.child) == None, x.child == y and y.left == y and y.right == y)',
             'implies(old(x.child) != None, x.child == old(x.child))',
             'implies(old(self._root) == y, self._root == old(y.right))',
             'implies(old(self._root) != y, self._root == old(self._root))'])
REG.contract(
    'FibonacciHeap._cut', params={'self': H, 'x': N, 'y': N},
    requires=['x != None', 'y != None', 'y.child != None', 'y.child.right != None', 'x.left != None', 'x.right != None',
              'implies(self._root != None, self._root.right != None)'],
    modifies=['_root@self', 'left', 'right', 'child@y', 'degree@y', 'parent', 'mark@x'],
    ensures=['x.parent == None', 'not x.mark', 'y.degree == old(y.degree) - 1',
             # parent pointers: x is detached; at most the new first child of y is re-pointed to y
             'forall_ref(n, n == x or n.parent == old(n.parent) or (n == old(x.right) and n.parent == y))',
             'implies(old(self._root) != None, self._root == old(self._root))',
             'implies(old(self._root) == None, self._root == x)'],
    note='frame: keys, deleted flags, _min and _n are not in the modifies list (verified, formerly trusted)')
REG.targets = ['fibonacci.FibonacciHeap._append_root', 'fibonacci.FibonacciHeap._remove_root', 'fibonacci.HeapNode.add_child',
               'fibonacci.HeapNode.remove_child', 'fibonacci.FibonacciHeap._link', 'fibonacci.FibonacciHeap._cut']

# ------------------------------------------------------------------------------------------------ _extract_min
REG.contract('HeapNode.children', params={'self': N}, yields=N, pure=True,
             ensures=['forall(i, 0, len(result), result[i] != None and result[i] != self and result[i].left != None and result[i].right != None)',
                      'implies(self.child == None, len(result) == 0)',
                      # representation invariant of the forest (checked after every operation by the bounded stand-in):
                      # the child ring of a node holds exactly the nodes whose parent pointer is that node
                      'forall_ref(c, implies(c.parent == self, exists(i, 0, len(result), result[i] == c)))'],
             trusted='HeapNode.children: walks the child ring; ASSUMED representation invariant: it yields exactly the nodes '
                     'whose parent pointer is this node')
REG.contract('FibonacciHeap._consolidate', params={'self': H},
             modifies=['_min@self', '_root@self', 'left', 'right', 'child', 'degree', 'parent', 'mark'],
             ensures=['self._n == old(self._n)'],
             trusted='_consolidate: re-links roots of equal degree and re-selects _min; size, keys and deleted flags untouched '
                     '(frame only; the forest invariant is decided by the bounded stand-in)')
REG.contract(
    'FibonacciHeap._extract_min', params={'self': H}, returns='optref[HeapNode]',
    requires=['implies(self._min != None, self._min.left != None and self._min.right != None)',
              'implies(self._root != None, self._root.right != None)'],
    modifies=['_min@self', '_root@self', '_n@self', 'left', 'right', 'child', 'degree', 'parent', 'mark'],
    ensures=['result == old(self._min)',
             'implies(old(self._min) != None, self._n == old(self._n) - 1)',
             'implies(old(self._min) == None, self._n == old(self._n))'],
    loops={0: LoopSpec(index='j', modifies=['_root@self', 'left', 'right', 'parent'], invariant=[
        'forall(i, 0, j, _src0[i].parent == None)',
        'forall_ref(n, n.parent == old(n.parent) or n.parent == None)',
        'implies(self._root != None, self._root.right != None)',
        'z.left != None and z.right != None', 'z == old(self._min)', 'self._n == old(self._n)', 'self._min == old(self._min)',
        'forall(i, 0, len(_src0), _src0[i] != None and _src0[i].left != None and _src0[i].right != None)',
        'forall_ref(c, implies(old(c.parent) == z, exists(i, 0, len(_src0), _src0[i] == c)))',
    ])},
    ghost_before={"self._remove_root(z)": [
        # every child of the removed root has been detached: no node keeps a parent pointer to it
        "check('forall_ref(c, implies(old(c.parent) == z and old(z.child) != None, c.parent == None))')",
        "check('forall_ref(c, c.parent == old(c.parent) or c.parent == None)')",
    ]},
    note='the mid-point assertions state that no node keeps a parent pointer to the extracted node (given the forest invariant '
         'through HeapNode.children); the postcondition keeps the size in step')
REG.targets.append('fibonacci.FibonacciHeap._extract_min')
