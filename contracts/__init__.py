"""Sidecar contracts for the real graphtage functions (nothing in /repo is annotated)."""
import importlib
from pyvc.spec import Registry


def load(*modules) -> Registry:
    reg = Registry()
    targets = []
    for m in modules:
        mod = importlib.import_module(f"contracts.{m}")
        reg = reg.merged(mod.REG)
        targets += [t for t in mod.REG.targets if t not in targets]
    reg.targets = targets
    return reg
