"""Lemma `size(x) >= 0` (assumed as an axiom in contracts.core): one discharged induction step per node class.

Each `calculate_total_size` is verified against `result >= 0` (and its exact formula) under the induction hypothesis that the
*children's* `total_size` is non-negative - which is all the virtual `TreeNode.total_size` contract of this registry
promises (no axiom on `size` here).  The memoising property `TreeNode.total_size` itself is verified with the memo write:
it returns the memo when there is one and otherwise stores and returns what `calculate_total_size` answers."""
from pyvc.spec import Registry, LoopSpec
from .common import REG as COMMON

REG = Registry().merged(COMMON)
REG.fields(key='ref[TreeNode]', value='ref[TreeNode]', _total_size='optint', _children='tupleseq[ref[TreeNode]]',
           text='optref[TreeNode]', tag='ref[TreeNode]', attrib='ref[TreeNode]', root='ref[TreeNode]',
           attrs='ref[TreeNode]', object='opaque', **{'XMLElement._children': 'ref[TreeNode]'})
REG.uf('size', 'int', 'int')
REG.uf('csize', 'int', 'int')

# induction hypothesis: the size of a (strictly smaller) child is non-negative
REG.contract('TreeNode.total_size', params={'self': 'ref[TreeNode]'}, returns='int', virtual=True, pure=True,
             ensures=['result == size(self)', 'result >= 0'],
             trusted='induction hypothesis of the size lemma: total_size of a child is non-negative')
REG.contract('TreeNode.calculate_total_size', params={'self': 'ref[TreeNode]'}, returns='int', virtual=True, pure=True,
             ensures=['result == csize(self)', 'result >= 0'],
             trusted='induction hypothesis of the size lemma: calculate_total_size of a child / of the dynamic class is non-negative')

REG.contract('KeyValuePairNode.calculate_total_size', params={'self': 'ref[KeyValuePairNode]'}, returns='int',
             ensures=['result == size(self.key) + size(self.value) + 2', 'result >= 2'])
REG.contract('NullNode.calculate_total_size', params={'self': 'ref[NullNode]'}, returns='int', ensures=['result == 0'])
REG.contract('XMLElement.calculate_total_size', params={'self': 'ref[XMLElement]'}, returns='int',
             ensures=['result == ite(isnone(self.text), 0, size(self.text)) + size(self.tag) + size(self.attrib) + size(self._children)',
                      'result >= 0'])
REG.contract('PLISTNode.calculate_total_size', params={'self': 'ref[PLISTNode]'}, returns='int',
             ensures=['result == csize(self.root)', 'result >= 0'])
REG.contract('PyObj.calculate_total_size', params={'self': 'ref[PyObj]'}, returns='int',
             ensures=['result == csize(self.attrs)', 'result >= 0'])
S = 'self._children'
REG.contract('SequenceNode.calculate_total_size', params={'self': 'ref[ListNode]'}, returns='int', self_cls='ListNode',
             ensures=[f'result == sumof(k, 0, len({S}), size({S}[k]) + 1)', f'result >= len({S})'])
REG.contract('LeafNode.calculate_total_size', params={'self': 'ref[LeafNode]'}, returns='int', ensures=['result >= 0'])
REG.targets = ['sequences.SequenceNode.calculate_total_size', 'graphtage.LeafNode.calculate_total_size',
               'graphtage.KeyValuePairNode.calculate_total_size', 'graphtage.NullNode.calculate_total_size',
               'xml.XMLElement.calculate_total_size', 'plist.PLISTNode.calculate_total_size',
               'pydiff.PyObj.calculate_total_size']
