"""The memoising property TreeNode.total_size, verified with its memo write: it returns the memo when there is one and
otherwise stores and returns what the (dynamically dispatched) calculate_total_size answers - so the value is immutable after
first use and non-negative when every calculate_total_size is (contracts.sizes)."""
from pyvc.spec import Registry
from .common import REG as COMMON

REG = Registry().merged(COMMON)
REG.fields(_total_size='optint')
REG.uf('csize', 'int', 'int')
REG.contract('TreeNode.calculate_total_size', params={'self': 'ref[TreeNode]'}, returns='int', virtual=True, pure=True,
             ensures=['result == csize(self)', 'result >= 0'],
             trusted='calculate_total_size of the dynamic class is non-negative (proved per class in contracts.sizes)')
REG.contract('TreeNode.total_size', params={'self': 'ref[TreeNode]'}, returns='int',
             requires=['isnone(self._total_size) or self._total_size >= 0'],
             modifies=['_total_size@self'],
             ensures=['result >= 0', 'notnone(self._total_size)', 'self._total_size == result',
                      'implies(notnone(old(self._total_size)), result == old(self._total_size))',
                      'implies(isnone(old(self._total_size)), result == csize(self))'])
REG.targets = ['tree.TreeNode.total_size']
