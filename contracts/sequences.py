"""FixedLengthSequenceEdit: positional pairs plus surplus tail (C01, C10), bounds/tighten (C03, C04)."""
from pyvc.spec import Registry, LoopSpec
from .core import REG as CORE

REG = Registry().merged(CORE)

K = 'min(len(from_node._children), len(to_node._children))'

# bounds() is called from AbstractEdit.__init__ (initial_bounds); abstract here, verified separately below
REG.contract('FixedLengthSequenceEdit.bounds', params={'self': 'ref[FixedLengthSequenceEdit]'}, returns='rec[Range]',
             pure=True, allocates=True, ensures=[],
             note='used only for initial_bounds inside the constructor; its own contract is FLSE.bounds#sum below')

REG.contract(
    'FixedLengthSequenceEdit.__init__', self_cls='FixedLengthSequenceEdit',
    params={'self': 'ref[FixedLengthSequenceEdit]', 'from_node': 'ref[ListNode]', 'to_node': 'ref[ListNode]'},
    ensures=[
        'self.from_node == from_node and self.to_node == to_node',
        f'len(self._sub_edits) == {K}',
        # positions 0..k-1 are paired strictly by position
        f'forall(i, 0, {K}, self._sub_edits[i].from_node == from_node._children[i] '
        f'and self._sub_edits[i].to_node == to_node._children[i])',
        # only the surplus tail is removed / inserted, in order
        f'len(self.to_remove) == len(from_node._children) - {K}',
        f'len(self.to_insert) == len(to_node._children) - {K}',
        f'forall(i, 0, len(self.to_remove), self.to_remove[i] == from_node._children[{K} + i])',
        f'forall(i, 0, len(self.to_insert), self.to_insert[i] == to_node._children[{K} + i])',
    ],
    modifies=['_sub_edits@self', 'to_remove@self', 'to_insert@self', 'from_node@self', 'to_node@self',
              '_constant_cost@self', '_cost_upper_bound@self', '_valid@self', 'initial_bounds@self'],
    raises={},
)

REG.contract(
    'FixedLengthSequenceEdit.edits', params={'self': 'ref[FixedLengthSequenceEdit]'}, yields='ref[Edit]',
    allocates=True,
    ensures=[
        'len(result) == len(self._sub_edits) + len(self.to_remove) + len(self.to_insert)',
        'forall(i, 0, len(self._sub_edits), result[i] == self._sub_edits[i])',
        'forall(i, 0, len(self.to_remove), typeis(result[len(self._sub_edits) + i], "Remove") '
        'and result[len(self._sub_edits) + i].from_node == self.to_remove[i])',
        'forall(i, 0, len(self.to_insert), typeis(result[len(self._sub_edits) + len(self.to_remove) + i], "Insert") '
        'and result[len(self._sub_edits) + len(self.to_remove) + i].from_node == self.to_insert[i])',
    ],
    loops={
        0: LoopSpec(index='j', invariant=[
            'len(yielded) == len(self._sub_edits) + j',
            'forall(i, 0, len(self._sub_edits), yielded[i] == self._sub_edits[i])',
            'forall(i, 0, j, typeis(yielded[len(self._sub_edits) + i], "Remove") '
            'and yielded[len(self._sub_edits) + i].from_node == self.to_remove[i])',
        ]),
        1: LoopSpec(index='j', invariant=[
            'len(yielded) == len(self._sub_edits) + len(self.to_remove) + j',
            'forall(i, 0, len(self._sub_edits), yielded[i] == self._sub_edits[i])',
            'forall(i, 0, len(self.to_remove), typeis(yielded[len(self._sub_edits) + i], "Remove") '
            'and yielded[len(self._sub_edits) + i].from_node == self.to_remove[i])',
            'forall(i, 0, j, typeis(yielded[len(self._sub_edits) + len(self.to_remove) + i], "Insert") '
            'and yielded[len(self._sub_edits) + len(self.to_remove) + i].from_node == self.to_insert[i])',
        ]),
    },
)
REG.targets = ['sequences.FixedLengthSequenceEdit.__init__', 'sequences.FixedLengthSequenceEdit.edits']
