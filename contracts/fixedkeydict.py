"""FixedKeyDictNode._child_edits: same-key pairs, removes, inserts - each exactly once, in a deterministic order
(C01 partition for the 'none' dictionary strategy, C07 order independence of hash seeds, C10 no cross-key pair)."""
from pyvc.spec import Registry, LoopSpec
from .core import REG as CORE
from .nodes import REG as NODES

REG = Registry().merged(CORE).merged(NODES)
REG.fields(**{
    'FixedKeyDictNode._children': 'dict[ref[TreeNode],ref[KeyValuePairNode]]',
    # ghost model of the other mapping: its (key, pair) items in iteration order
    'mitems': 'list[tuple[ref[TreeNode],ref[KeyValuePairNode]]]',
})
HAS = lambda m, k: f'exists(q, 0, len({m}.mitems), eqv({m}.mitems[q][0], {k}))'
MAPWF = lambda m: (f'forall(q, 0, len({m}.mitems), {m}.mitems[q][1].key == {m}.mitems[q][0]) and '
                   f'forall(q, 0, len({m}.mitems), forall(p, 0, len({m}.mitems), implies(p != q, not eqv({m}.mitems[p][0], {m}.mitems[q][0]))))')
REG.contract('MappingNode.__contains__', params={'self': 'ref[MappingNode]', 'item': 'ref[TreeNode]'}, returns='bool',
             virtual=True, pure=True, ensures=['result == ' + HAS('self', 'item')],
             trusted='MappingNode.__contains__ against the ghost item list (linear search by key equality)')
REG.contract('MappingNode.__getitem__', params={'self': 'ref[MappingNode]', 'item': 'ref[TreeNode]'},
             returns='ref[KeyValuePairNode]', virtual=True, pure=True,
             requires=[HAS('self', 'item')],
             ensures=['exists(q, 0, len(self.mitems), eqv(self.mitems[q][0], item) and result == self.mitems[q][1])'],
             trusted='MappingNode.__getitem__ returns the pair stored under an equal key')
REG.contract('MappingNode.__iter__', params={'self': 'ref[MappingNode]'}, returns='list[ref[KeyValuePairNode]]',
             virtual=True, pure=True,
             ensures=['len(result) == len(self.mitems)', 'forall(q, 0, len(result), result[q] == self.mitems[q][1])'],
             trusted='MappingNode.__iter__ yields the pairs in item order')

S = 'self._children'
SWF = (f'forall(q, 0, len({S}), {S}[q][1].key == {S}[q][0]) and '
       f'forall(q, 0, len({S}), forall(p, 0, len({S}), implies(p != q, not eqv({S}[p][0], {S}[q][0]))))')
INC = lambda g: f'forall(a, 0, len({g}), forall(b, 0, len({g}), implies(a < b, {g}[a] < {g}[b])))'
PAIRS = (f'forall(k, 0, len(gs), 0 <= gs[k] and gs[k] < len({S}) and yielded[k].from_node == {S}[gs[k]][1] '
         f'and eqv(yielded[k].to_node.key, {S}[gs[k]][0]) and ' + HAS('node', f'{S}[gs[k]][0]') +
         ' and not isinstance(yielded[k], Remove) and not isinstance(yielded[k], Insert))')
UNSH = (f'forall(k, 0, len(gu), 0 <= gu[k] and gu[k] < len({S}) and not ' + HAS('node', f'{S}[gu[k]][0]') + ')')
REG.contract(
    'FixedKeyDictNode._child_edits', params={'self': 'ref[FixedKeyDictNode]', 'node': 'ref[MappingNode]'},
    yields='ref[Edit]', allocates=True,
    requires=[SWF, MAPWF('node'), 'self != node'],
    ghost_init=['gs = ghost_list("int")', 'gu = ghost_list("int")', 'gi = ghost_list("int")'],
    ghost_before={'other_kvp = node[key]': ['gs.append(i)'], 'unshared_kvps.a': ['gu.append(i)'],
                  'yield Insert(': ['gi.append(j)']},
    loops={
        0: LoopSpec(index='i', types={'unshared_kvps': 'list[ref[KeyValuePairNode]]'}, invariant=[
            'len(yielded) == len(gs)', 'len(gs) + len(gu) == i', INC('gs'), INC('gu'),
            'forall(k, 0, len(gs), gs[k] < i)', 'forall(k, 0, len(gu), gu[k] < i)',
            PAIRS, UNSH, 'len(gi) == 0',
            # the not-yet-emitted removals, in source order
            'len(unshared_kvps) == len(gu)', f'forall(k, 0, len(gu), unshared_kvps[k] == {S}[gu[k]][1])',
        ]),
        1: LoopSpec(index='r', invariant=[
            'len(yielded) == len(gs) + r', 'len(gs) + len(gu) == len(' + S + ')', INC('gs'), INC('gu'), PAIRS, UNSH, 'len(gi) == 0',
            'len(unshared_kvps) == len(gu)', f'forall(k, 0, len(gu), unshared_kvps[k] == {S}[gu[k]][1])',
            # C07: removals are emitted in the insertion order of the source mapping, whatever the hash seed
            f'forall(p, len(gs), len(gs) + r, typeis(yielded[p], "Remove") and yielded[p].from_node == {S}[gu[p - len(gs)]][1])',
        ]),
        2: LoopSpec(index='j', invariant=[
            'len(yielded) == len(gs) + len(gu) + len(gi)', 'len(gs) + len(gu) == len(' + S + ')', INC('gs'), INC('gu'), INC('gi'),
            PAIRS, UNSH, 'forall(k, 0, len(gi), 0 <= gi[k] and gi[k] < j)',
            f'forall(p, len(gs), len(gs) + len(gu), typeis(yielded[p], "Remove") and yielded[p].from_node == {S}[gu[p - len(gs)]][1])',
            'forall(p, len(gs) + len(gu), len(yielded), typeis(yielded[p], "Insert") and '
            'yielded[p].from_node == node.mitems[gi[p - len(gs) - len(gu)]][1] and '
            f'not exists(q, 0, len({S}), eqv({S}[q][0], node.mitems[gi[p - len(gs) - len(gu)]][0])))',
            # every target item seen so far whose key is absent from the source has been inserted
            f'forall(t, 0, j, implies(not exists(q, 0, len({S}), eqv({S}[q][0], node.mitems[t][0])), '
            'exists(k, 0, len(gi), gi[k] == t)))',
        ]),
    },
    internal_ensures=[
        'len(result) == len(gs) + len(gu) + len(gi)', 'len(gs) + len(gu) == len(' + S + ')', INC('gs'), INC('gu'), INC('gi'),
        PAIRS.replace('yielded', 'result'), UNSH,
        f'forall(p, len(gs), len(gs) + len(gu), typeis(result[p], "Remove") and result[p].from_node == {S}[gu[p - len(gs)]][1])',
        'forall(p, len(gs) + len(gu), len(result), typeis(result[p], "Insert") and '
        'result[p].from_node == node.mitems[gi[p - len(gs) - len(gu)]][1])',
        f'forall(t, 0, len(node.mitems), implies(not exists(q, 0, len({S}), eqv({S}[q][0], node.mitems[t][0])), '
        'exists(k, 0, len(gi), gi[k] == t)))',
    ],
    ensures=[
        # C10 ('none' strategy): no edit pairs two items whose keys differ
        'forall(k, 0, len(result), implies(not isinstance(result[k], Remove) and not isinstance(result[k], Insert), '
        'eqv(result[k].from_node.key, result[k].to_node.key)))',
    ])
REG.targets = ['graphtage.FixedKeyDictNode._child_edits']
