"""C12: StringFormatter.print_StringNode (JSON string formatter instance) emits quote, escape(c) for every character in
order, quote.  The printer is abstracted by a ghost output log of string ids (one-character strings are their code
point)."""
from pyvc.spec import Registry, LoopSpec
from .common import REG as COMMON

REG = Registry().merged(COMMON)
REG.fields(object='str', log='list[int]', _ansi_color='bool', _last_was_inserted='bool', _last_was_removed='bool',
           is_quoted='bool', quoted='bool')
REG.uf('esc', 'int', 'int')
REG.contract('Printer.write', params={'self': 'ref[Printer]', 's': 'strid'}, virtual=True, modifies=['log@self'],
             ensures=['len(self.log) == old(len(self.log)) + 1', 'self.log[old(len(self.log))] == s',
                      'forall(i, 0, old(len(self.log)), self.log[i] == old(self.log[i]))'],
             trusted='Printer.write appends its argument to the output (ANSI / combining-mark decoration dropped)')
for m in ('color', 'bright', 'background', 'strike', 'under_plus', '__enter__'):
    ps = {'self': 'ref[Printer]'}
    if m in ('color', 'background'):
        ps['c'] = 'opaque'
    REG.contract(f'Printer.{m}', params=ps, returns='ref[Printer]', virtual=True, pure=True,
                 ensures=['result == self'], trusted='ANSI context managers write through to the same printer')
REG.contract('Printer.__exit__', params={'self': 'ref[Printer]'}, virtual=True, pure=True, trusted='no output on exit')
REG.contract('StringFormatter.context', params={'self': 'ref[StringFormatter]', 'printer': 'ref[Printer]'},
             returns='ref[Printer]', virtual=True, pure=True, ensures=['result == printer'],
             trusted='StringFormatter.context only selects a colour')
REG.contract('StringEdit.__init__', params={'self': 'ref[StringEdit]', 'from_node': 'ref[TreeNode]', 'to_node': 'ref[TreeNode]'},
             allocates=True, trusted='StringEdit(node, node) is built only to be passed to the quote writers, which ignore it in JSON')
REG.contract('JSONStringFormatter.escape', params={'self': 'ref[JSONStringFormatter]', 'c': 'int'}, returns='strid', pure=True,
             ensures=['result == esc(c)'],
             trusted='escape(c) = json.dumps(c)[1:-1]: a per-character function (its whole domain is enumerated by the bounded run)')
Q = 34      # '"'
L0 = 'old(len(printer.log))'
REG.contract(
    'StringFormatter.print_StringNode', self_cls='JSONStringFormatter',
    params={'self': 'ref[JSONStringFormatter]', 'printer': 'ref[Printer]', 'node': 'ref[StringNode]'},
    requires=['not self._last_was_inserted and not self._last_was_removed'], allocates=True,
    modifies=['log@printer', 'is_quoted@self', '_last_was_inserted@self', '_last_was_removed@self'],
    ensures=[
        f'len(printer.log) == {L0} + len(node.object) + 2',
        f'printer.log[{L0}] == {Q}',
        f'forall(i, 0, len(node.object), printer.log[{L0} + 1 + i] == esc(node.object[i]))',
        f'printer.log[{L0} + len(node.object) + 1] == {Q}',
        f'forall(i, 0, {L0}, printer.log[i] == old(printer.log[i]))',
    ],
    loops={0: LoopSpec(index='k', modifies=['log@printer', '_last_was_inserted@self', '_last_was_removed@self'], invariant=[
        'p == printer', 'self.is_quoted',
        f'len(printer.log) == {L0} + 1 + k', f'printer.log[{L0}] == {Q}',
        f'forall(i, 0, k, printer.log[{L0} + 1 + i] == esc(node.object[i]))',
        f'forall(i, 0, {L0}, printer.log[i] == old(printer.log[i]))',
        'not self._last_was_inserted and not self._last_was_removed',
    ])})
REG.targets = ['graphtage.StringFormatter.print_StringNode']
