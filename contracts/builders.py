"""C10: the generic tree builder hands the list / dictionary options to the nodes it builds (BasicBuilder.build_list,
BasicBuilder.build_dict), as json.build_tree does."""
from pyvc.spec import Registry
from .nodes import REG as NODES

REG = Registry().merged(NODES)
REG.fields(options='ref[BuildOptions]', auto_match_keys='bool', allow_key_edits='bool')
REG.contract('SequenceNode.__init__', params={'self': 'ref[SequenceNode]', 'children': 'tupleseq[ref[TreeNode]]'},
             ensures=['len(self._children) == len(children)', 'forall(i, 0, len(children), self._children[i] == children[i])'],
             modifies=['_children@self'],
             trusted='SequenceNode.__init__: stores the children (it also builds the child index and re-parents the children - '
                     'not modelled)')
REG.contract('ListNode.__init__', self_cls='ListNode', allocates=True,
             params={'self': 'ref[ListNode]', 'nodes': 'list[ref[TreeNode]]', 'allow_list_edits': 'bool',
                     'allow_list_edits_when_same_length': 'bool'},
             ensures=['self.allow_list_edits == allow_list_edits',
                      'self.allow_list_edits_when_same_length == allow_list_edits_when_same_length',
                      'len(self._children) == len(nodes)', 'forall(i, 0, len(nodes), self._children[i] == nodes[i])'],
             modifies=['allow_list_edits@self', 'allow_list_edits_when_same_length@self', '_children@self'],
             note='the two flags are stored under their own names')
REG.contract('BasicBuilder.build_list', params={'self': 'ref[BasicBuilder]', 'obj': 'opaque', 'children': 'list[ref[TreeNode]]'},
             returns='ref[ListNode]', allocates=True,
             ensures=['typeis(result, "ListNode")',
                      'result.allow_list_edits == self.options.allow_list_edits',
                      'result.allow_list_edits_when_same_length == self.options.allow_list_edits_when_same_length',
                      'len(result._children) == len(children)', 'forall(i, 0, len(children), result._children[i] == children[i])'])
REG.targets = ['builder.BasicBuilder.build_list', 'graphtage.ListNode.__init__']
