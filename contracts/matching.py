"""C15: matching.get_dtype - the chosen numpy dtype can hold every integer in [min_value, max_value]."""
from pyvc.spec import Registry
from .common import REG as COMMON

REG = Registry().merged(COMMON)
RANGES = {'np.uint8': (0, 2**8), 'np.uint16': (0, 2**16), 'np.uint32': (0, 2**32), 'np.uint64': (0, 2**64),
          'np.int8': (-2**7, 2**7), 'np.int16': (-2**15, 2**15), 'np.int32': (-2**31, 2**31), 'np.int64': (-2**63, 2**63)}
ens = [f'implies(result == "dtype:{k}", {lo} <= min_value and max_value < {hi})' for k, (lo, hi) in RANGES.items()]
names = ' or '.join(f'result == "dtype:{k}"' for k in RANGES) + ' or result == "dtype:int"'
REG.contract('matching.get_dtype', params={'min_value': 'int', 'max_value': 'int'},
             requires=['min_value <= max_value', f'{-2**63} <= min_value and max_value < {2**64}'],   # documented domain
             ensures=ens + [names,
                            # the fall-through dtype (platform int = int64) must also hold the range
                            f'implies(result == "dtype:int", {-2**63} <= min_value and max_value < {2**63})'])
REG.targets = ['matching.get_dtype']
