"""C13: cross-format adapters build temporary containers around nodes of the tree being printed.  Constructing a
container sets child.parent = container for every child (ContainerNode.__init_subclass__ wrapper) and the parent setter
raises ValueError if the child already has a different parent: a violated precondition is an internal error."""
from pyvc.spec import Registry, LoopSpec
from .common import REG as COMMON

REG = Registry().merged(COMMON)
REG.fields(_parent='optref[TreeNode]', tag='ref[TreeNode]', attrib='ref[TreeNode]', text='optref[TreeNode]',
           **{'XMLElement._children': 'ref[TreeNode]', 'key': 'ref[TreeNode]', 'value': 'ref[TreeNode]'})
# container constructors as described by ContainerNode.__init_subclass__ + the parent setter (trusted description)
REG.contract('KeyValuePairNode.__init__', self_cls='KeyValuePairNode',
             params={'self': 'ref[KeyValuePairNode]', 'key': 'ref[TreeNode]', 'value': 'ref[TreeNode]', 'allow_key_edits': 'bool'},
             raises={'ValueError': 'key._parent != None or value._parent != None'},
             modifies=['_parent@key', '_parent@value', 'key@self', 'value@self'],
             ensures=['key._parent == self and value._parent == self and self._parent == None'],
             trusted='ContainerNode.__init_subclass__ wrapper: every child gets parent = the new container; the parent setter '
                     'raises ValueError("Parent is already assigned") for a child that already has another parent')
REG.contract('StringNode.__init__', self_cls='StringNode', params={'self': 'ref[StringNode]', 'string_like': 'opaque', 'quoted': 'bool'},
             ensures=['self._parent == None'], trusted='a new leaf has no parent')
REG.contract('DictNode.__init__', self_cls='DictNode',
             params={'self': 'ref[DictNode]', 'items': 'list[ref[TreeNode]]', 'auto_match_keys': 'bool'},
             raises={'ValueError': 'exists(i, 0, len(items), items[i]._parent != None)'},
             modifies=['_parent'], trusted='container constructor, see KeyValuePairNode.__init__')
REG.contract('ListNode.__init__', self_cls='ListNode',
             params={'self': 'ref[ListNode]', 'nodes': 'list[ref[TreeNode]]', 'allow_list_edits': 'bool',
                     'allow_list_edits_when_same_length': 'bool'},
             raises={'ValueError': 'exists(i, 0, len(nodes), nodes[i]._parent != None)'},
             modifies=['_parent'], trusted='container constructor, see KeyValuePairNode.__init__')
REG.contract('TreeNode.__len__', params={'self': 'ref[TreeNode]'}, returns='int', virtual=True, pure=True, ensures=['result >= 0'],
             trusted='len of a container')
REG.contract('TreeNode.children', params={'self': 'ref[TreeNode]'}, returns='list[ref[TreeNode]]', virtual=True, pure=True,
             ensures=['forall(i, 0, len(result), result[i]._parent == self)'],
             trusted='tree invariant: every child of a container built by a loader has that container as parent')
REG.contract('TreeNode.copy', params={'self': 'ref[TreeNode]'}, returns='ref[TreeNode]', virtual=True, allocates=True,
             ensures=['isnew(result)', 'result._parent == None'], trusted='copy() returns a fresh, parentless tree (C18)')

TREE_INV = ['node.tag._parent == node', 'node.attrib._parent == node', 'node._children._parent == node',
            'implies(node.text != None, node.text._parent == node)']
REG.contract('xml._json_print_XMLElement', params={'self': 'dropped', 'printer': 'dropped', 'node': 'ref[XMLElement]'},
             requires=TREE_INV, modifies=['_parent', 'key', 'value'], allocates=True, ensures=['True'],
             note='no-raise: the temporary key/value pairs must not re-parent nodes of the tree being printed')
REG.contract('YAMLFormatter.print_ContainerNode', params={'self': 'dropped', 'printer': 'dropped', 'node': 'ref[ContainerNode]'},
             requires=[], modifies=['_parent'], allocates=True, ensures=['True'])
REG.contract('JSONFormatter.print_ContainerNode', params={'self': 'dropped', 'printer': 'dropped', 'node': 'ref[ContainerNode]'},
             requires=[], modifies=['_parent'], allocates=True, ensures=['True'])
REG.targets = ['xml._json_print_XMLElement', 'yaml.YAMLFormatter.print_ContainerNode', 'json.JSONFormatter.print_ContainerNode']
