"""Shared contract vocabulary for tree nodes and edits (DESIGN section 5)."""
from pyvc.spec import Registry
from .common import REG as COMMON

REG = Registry().merged(COMMON)

REG.fields(
    from_node='ref[TreeNode]', to_node='optref[TreeNode]', _constant_cost='int', _cost_upper_bound='optint',
    _valid='bool', initial_bounds='rec[Range]',
    _sub_edits='list[ref[Edit]]', to_remove='tupleseq[ref[TreeNode]]', to_insert='tupleseq[ref[TreeNode]]',
    _children='tupleseq[ref[TreeNode]]',
    key='ref[TreeNode]', value='ref[TreeNode]', allow_key_edits='bool',
    key_edit='ref[Edit]', value_edit='ref[Edit]',
    # ghost (model) fields of the Bounded protocol B (DESIGN 5): current bounds, final cost, termination fuel
    lb='int', ub='int', final='int', fuel='int',
)
REG.uf('size', 'int', 'int')
# sizes are non-negative: a lemma, not an assumption, for LeafNode, NullNode, KeyValuePairNode, ListNode, FixedKeyDictNode,
# MultiSetNode/DictNode, XMLElement, PLISTNode and PyObj - one discharged induction step per class in contracts.sizes, sizes_fk,
# sizes_ms, the memo in contracts.sizes_memo (targets of C03); still assumed for DataClassNode (getattr over slots; bounded tier of C03)
REG.axiom('forall_ref(x, size(x) >= 0)')

# node size: memoised property (verified with its memo write in contracts.sizes_memo)
REG.contract('TreeNode.total_size', params={'self': 'ref[TreeNode]'}, returns='int', virtual=True, pure=True,
             ensures=['result == size(self)', 'result >= 0'],
             trusted='TreeNode.total_size: non-negative and immutable after first use - discharged in contracts.sizes / sizes_memo (C03) for every '
                     'node class except DataClassNode; composed by structural induction (paper step)')

# interface E(X): x.edits(y) allocates a pair edit covering (x, y) that satisfies the Bounded well-formedness
REG.contract('TreeNode.edits', params={'self': 'ref[TreeNode]', 'node': 'ref[TreeNode]'}, returns='ref[Edit]',
             virtual=True, allocates=True,
             ensures=['result.from_node == self', 'result.to_node == node', 'isnew(result)',
                      'not isinstance(result, Remove) and not isinstance(result, Insert)',
                      '0 <= result.lb and result.lb <= result.final and result.final <= result.ub',
                      'result.fuel >= 0'],
             trusted='interface contract E(X) of TreeNode.edits (proved per implementer where listed; '
                     'PLISTNode.edits satisfies it only for PLISTNode arguments)')

# Bounded protocol B for objects of unknown class
REG.contract('Edit.bounds', params={'self': 'ref[Edit]'}, returns='rec[Range]', virtual=True, pure=True,
             ensures=['result.lower_bound == self.lb', 'result.upper_bound == self.ub'],
             trusted='protocol B1: bounds() reads the abstract range and changes nothing abstractly')
REG.contract('Edit.tighten_bounds', params={'self': 'ref[Edit]'}, returns='bool', virtual=True,
             requires=['self.lb <= self.final and self.final <= self.ub and self.fuel >= 0'],
             modifies=['lb@self', 'ub@self', 'fuel@self'],
             ensures=['old(self.lb) <= self.lb', 'self.lb <= self.final', 'self.final <= self.ub', 'self.ub <= old(self.ub)',
                      'implies(result, (self.lb > old(self.lb) or self.ub < old(self.ub)) and self.fuel < old(self.fuel))',
                      'implies(not result, self.lb == self.ub)', 'self.fuel >= 0', 'self.fuel <= old(self.fuel)'],
             trusted='protocol B2-B4 for sub-objects (proved per implementer where listed, assumed here); '
                     'distinct sub-edits have disjoint state')
REG.contract('Edit.is_complete', params={'self': 'ref[Edit]'}, returns='bool', virtual=True, pure=True,
             trusted='is_complete of sub-objects: pure')

# constant-cost edit constructors (each is also a verification target: the real __init__ chain is inlined)
for cls, a, b in (('Remove', 'to_remove', 'remove_from'), ('Insert', 'to_insert', 'insert_into')):
    REG.contract(f'{cls}.__init__', self_cls=cls,
                 params={'self': f'ref[{cls}]', a: 'ref[TreeNode]', b: 'ref[TreeNode]', 'penalty': 'int'},
                 requires=['penalty >= 0'],
                 ensures=[f'self.from_node == {a}', f'self.to_node == {b}',
                          f'self._constant_cost == size({a}) + penalty', f'self._cost_upper_bound == size({a}) + penalty',
                          'self._valid'],
                 modifies=['from_node@self', 'to_node@self', '_constant_cost@self', '_cost_upper_bound@self',
                           '_valid@self', 'initial_bounds@self'])
REG.contract('Match.__init__', self_cls='Match',
             params={'self': 'ref[Match]', 'match_from': 'ref[TreeNode]', 'match_to': 'ref[TreeNode]', 'cost': 'int'},
             requires=['cost >= 0'],
             ensures=['self.from_node == match_from', 'self.to_node == match_to', 'self._constant_cost == cost',
                      'self._cost_upper_bound == cost', 'self._valid'],
             modifies=['from_node@self', 'to_node@self', '_constant_cost@self', '_cost_upper_bound@self',
                       '_valid@self', 'initial_bounds@self'])
REG.contract('Replace.__init__', self_cls='Replace',
             params={'self': 'ref[Replace]', 'to_replace': 'ref[TreeNode]', 'replace_with': 'ref[TreeNode]'},
             ensures=['self.from_node == to_replace', 'self.to_node == replace_with',
                      'self._constant_cost == max(size(to_replace), size(replace_with)) + 1',
                      'self._cost_upper_bound == max(size(to_replace), size(replace_with)) + 1',
                      'self._constant_cost >= 1', 'self._valid'],
             modifies=['from_node@self', 'to_node@self', '_constant_cost@self', '_cost_upper_bound@self',
                       '_valid@self', 'initial_bounds@self'])
CC_COUPLING = ['self.lb == self._constant_cost', 'self.ub == self._constant_cost', 'self.final == self._constant_cost',
               'self.fuel == 0']
for _k in ('Remove.__init__', 'Insert.__init__', 'Match.__init__', 'Replace.__init__'):
    REG.contracts[_k].assumed_ensures = list(CC_COUPLING)
    REG.contracts[_k].note = ('coupling of the ghost range (lb, ub, final, fuel) with the constant cost is assumed at call '
                              'sites; it is justified by the discharged contracts AbstractEdit.bounds and '
                              'ConstantCostEdit.tighten_bounds and the mechanical check that these classes override neither')


def _no_override(repo):
    errs = []
    for cls in ('Match', 'Replace', 'Remove', 'Insert'):
        ci = repo.classes.get(cls)
        if ci is None:
            errs.append(f"class {cls} missing")
            continue
        for m in ('bounds', 'tighten_bounds'):
            if m in ci.methods:
                errs.append(f"{cls} overrides {m}")
        if repo.lookup_method(cls, 'bounds') is None or repo.lookup_method(cls, 'bounds').cls != 'AbstractEdit':
            errs.append(f"{cls}.bounds does not resolve to AbstractEdit.bounds")
        tb = repo.lookup_method(cls, 'tighten_bounds')
        if tb is None or tb.cls != 'ConstantCostEdit':
            errs.append(f"{cls}.tighten_bounds does not resolve to ConstantCostEdit.tighten_bounds")
    return errs


REG.side_checks.append(_no_override)
REG.targets = ['edits.Remove.__init__', 'edits.Insert.__init__', 'edits.Match.__init__', 'edits.Replace.__init__']
