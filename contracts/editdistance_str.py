"""C11: EditDistance._best_match specialised to the per-character instance built by string_edit_distance
(insert/remove penalty 0, every element of size 1, pair cost 0 for equal and 1 for unequal characters)."""
from pyvc.spec import Registry
from .editdistance import REG as ED, EM, M, N, CELLS_OK

REG = Registry().merged(ED)
D0, U0, L0 = 'old(self.costs[row - 1][col - 1])', 'old(self.costs[row - 1][col])', 'old(self.costs[row][col - 1])'
DEF = lambda e, vals: f'({e}.lb == {e}.ub and {e}.final == {e}.lb and (' + ' or '.join(f'{e}.lb == {v}' for v in vals) + '))'
REG.contract(
    'EditDistance._best_match', params={'self': 'ref[EditDistance]', 'row': 'int', 'col': 'int'},
    returns='tuple[int,int,ref[Edit]]',
    requires=['ed_shape(self)', 'ed_cellwf(self)', f'not isnone({EM})', f'1 <= row and row <= {M}', f'1 <= col and col <= {N}',
              CELLS_OK,
              # string instance: the pair edit costs 0 (equal characters) or 1 (different), insert/remove cost 1
              DEF(f'{EM}[row][col]', (0, 1)), DEF(f'{EM}[row][0]', (1,)), DEF(f'{EM}[0][col]', (1,)),
              f'{EM}[row][col] != {EM}[row][0] and {EM}[row][col] != {EM}[0][col] and {EM}[row][0] != {EM}[0][col]',
              # the three neighbours hold indel distances of adjacent prefixes (they differ by exactly one)
              'abs(self.costs[row - 1][col] - self.costs[row - 1][col - 1]) == 1',
              'abs(self.costs[row][col - 1] - self.costs[row - 1][col - 1]) == 1',
              'self.costs[row - 1][col - 1] >= 0'],
    modifies=['costs@self', 'path_costs@self', 'lb', 'ub', 'fuel'],
    ensures=[
        # textbook recurrence of the insert/delete (LCS) distance: a substitution is never cheaper than delete+insert
        f'self.costs[row][col] == min({D0} + ite(old({EM}[row][col].ub) == 0, 0, 2), {U0} + 1, {L0} + 1)',
        # the chosen predecessor realises it
        'self.costs[row][col] == old(self.costs[result[0]][result[1]]) + old(result[2].ub)',
        # a pair of different characters is never kept as a pair (it would hide a removal and an insertion)
        f'implies(old({EM}[row][col].ub) == 1, result[2] != {EM}[row][col])',
        # adjacency is preserved for the new cell
        f'abs(self.costs[row][col] - {U0}) == 1 and abs(self.costs[row][col] - {L0}) == 1',
    ],
    note='loop-free, full integer domain: a complete proof of the local step of the string instance')
REG.targets = ['levenshtein.EditDistance._best_match']
