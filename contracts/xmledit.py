"""xml.XMLElementEdit: component-wise sub-edits (C01), cost = sum of exactly the listed sub-edits (C03), Bounded protocol
(C04)."""
from pyvc.spec import Registry
from .core import REG as CORE
from .bounded import REG as BND

REG = Registry().merged(CORE).merged(BND)
REG.fields(tag_edit='ref[Edit]', attrib_edit='ref[Edit]', text_edit='optref[Edit]', child_edit='ref[Edit]',
           tag='ref[TreeNode]', attrib='ref[TreeNode]', text='optref[TreeNode]',
           **{'XMLElement._children': 'ref[TreeNode]'})
WF = lambda e: f'(0 <= {e}.lb and {e}.lb <= {e}.final and {e}.final <= {e}.ub and {e}.fuel >= 0)'
PARTS = ['self.tag_edit', 'self.attrib_edit', 'self.child_edit']
PRE = [WF(p) for p in PARTS] + [f'implies(self.text_edit != None, {WF("self.text_edit")})',
       'self.tag_edit != self.attrib_edit and self.tag_edit != self.child_edit and self.attrib_edit != self.child_edit',
       'implies(self.text_edit != None, self.text_edit != self.tag_edit and self.text_edit != self.attrib_edit '
       'and self.text_edit != self.child_edit)']
T = lambda f: f'ite(self.text_edit != None, self.text_edit.{f}, 0)'
REG.macro('xL', ['self'], f'self.tag_edit.lb + self.attrib_edit.lb + self.child_edit.lb + {T("lb")}')
REG.macro('xU', ['self'], f'self.tag_edit.ub + self.attrib_edit.ub + self.child_edit.ub + {T("ub")}')
REG.macro('xF', ['self'], f'self.tag_edit.final + self.attrib_edit.final + self.child_edit.final + {T("final")}')
REG.macro('xFuel', ['self'], f'self.tag_edit.fuel + self.attrib_edit.fuel + self.child_edit.fuel + {T("fuel")}')

REG.contract('XMLElementEdit.edits', params={'self': 'ref[XMLElementEdit]'}, yields='ref[Edit]',
             ensures=['len(result) == ite(self.text_edit != None, 4, 3)',
                      'result[0] == self.tag_edit and result[1] == self.attrib_edit',
                      'implies(self.text_edit != None, result[2] == self.text_edit and result[3] == self.child_edit)',
                      'implies(self.text_edit == None, result[2] == self.child_edit)'])
# C03: the cost is the sum over exactly the edits that edits() lists (the text edit only when it exists)
REG.contract('XMLElementEdit.bounds', params={'self': 'ref[XMLElementEdit]'}, returns='rec[Range]', pure=True,
             requires=PRE, ensures=['result.lower_bound == xL(self)', 'result.upper_bound == xU(self)'])
MODS = [f'{f}@{p}' for p in PARTS + ['self.text_edit'] for f in ('lb', 'ub', 'fuel')]
REG.contract('XMLElementEdit.tighten_bounds', params={'self': 'ref[XMLElementEdit]'}, returns='bool',
             requires=PRE, modifies=MODS,
             ensures=['old(xL(self)) <= xL(self)', 'xL(self) <= xF(self)', 'xF(self) <= xU(self)', 'xU(self) <= old(xU(self))',
                      'implies(result, (xL(self) > old(xL(self)) or xU(self) < old(xU(self))) and xFuel(self) < old(xFuel(self)))',
                      'implies(not result, xL(self) == xU(self))'] + [WF(p) for p in PARTS])
REG.contract(
    'XMLElementEdit.__init__', self_cls='XMLElementEdit', allocates=True,
    params={'self': 'ref[XMLElementEdit]', 'from_node': 'ref[XMLElement]', 'to_node': 'ref[XMLElement]'},
    modifies=['tag_edit@self', 'attrib_edit@self', 'text_edit@self', 'child_edit@self', 'from_node@self', 'to_node@self',
              '_constant_cost@self', '_cost_upper_bound@self', '_valid@self', 'initial_bounds@self'],
    ensures=[
        'self.from_node == from_node and self.to_node == to_node',
        'self.tag_edit.from_node == from_node.tag and self.tag_edit.to_node == to_node.tag',
        'self.attrib_edit.from_node == from_node.attrib and self.attrib_edit.to_node == to_node.attrib',
        'self.child_edit.from_node == from_node._children and self.child_edit.to_node == to_node._children',
        # text present on both sides: pair; only in the target: Insert of it; only in the source: Remove of it; else none
        'implies(from_node.text != None and to_node.text != None, self.text_edit.from_node == from_node.text '
        'and self.text_edit.to_node == to_node.text)',
        'implies(from_node.text == None and to_node.text != None, typeis(self.text_edit, "Insert") and self.text_edit.from_node == to_node.text)',
        'implies(from_node.text != None and to_node.text == None, typeis(self.text_edit, "Remove") and self.text_edit.from_node == from_node.text)',
        'implies(from_node.text == None and to_node.text == None, self.text_edit == None)',
    ])
REG.targets = ['xml.XMLElementEdit.edits', 'xml.XMLElementEdit.bounds', 'xml.XMLElementEdit.tighten_bounds', 'xml.XMLElementEdit.__init__']
