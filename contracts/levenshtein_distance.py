"""C02: levenshtein_distance(s, t) == 0  <=>  s == t   (and |len s - len t| <= result)."""
from pyvc.spec import Registry, LoopSpec
from .common import REG as COMMON

REG = Registry().merged(COMMON)

# P(r,c): cell (r,c) of the DP matrix is sound for the property
REG.macro('P', ['dist', 's', 't', 'r', 'c'],
          'dist[r][c] >= abs(r - c) and iff(dist[r][c] == 0, r == c and forall(k, 0, r, s[k] == t[k]))')
REG.macro('shape', ['dist', 'rows', 'cols'],
          'len(dist) == rows and forall(r, 0, rows, len(dist[r]) == cols)')

REG.contract(
    'levenshtein.levenshtein_distance',
    params={'s': 'str', 't': 'str'}, returns='int',
    ensures=[
        'iff(result == 0, seqeq(s, t))',
        'result >= abs(len(s) - len(t))',
    ],
    loops={
        0: LoopSpec(index='k0', invariant=[
            'shape(dist, rows, cols)',
            'forall(r, 0, rows, implies(r <= k0, dist[r][0] == r))',
            'forall(r, 0, rows, forall(c, 0, cols, implies(c > 0 or r > k0, dist[r][c] == 0)))',
        ]),
        1: LoopSpec(index='k1', invariant=[
            'shape(dist, rows, cols)',
            'forall(r, 0, rows, dist[r][0] == r)',
            'forall(c, 0, cols, implies(c <= k1, dist[0][c] == c))',
        ]),
        2: LoopSpec(index='k2', invariant=[
            'shape(dist, rows, cols)',
            'col == k2',
            'row == ite(k2 > 0 and rows > 1, rows - 1, 0)',
            'forall(c, 0, cols, dist[0][c] == c)',
            'forall(r, 0, rows, dist[r][0] == r)',
            'forall(r, 0, rows, forall(c, 0, cols, implies(c <= k2, P(dist, s, t, r, c))))',
        ]),
        3: LoopSpec(index='k3', invariant=[
            'shape(dist, rows, cols)',
            'col == k2 + 1 and col < cols',
            'row == ite(k3 > 0, k3, ite(k2 > 0 and rows > 1, rows - 1, 0))',
            'forall(c, 0, cols, dist[0][c] == c)',
            'forall(r, 0, rows, dist[r][0] == r)',
            'forall(r, 0, rows, forall(c, 0, cols, implies(c <= k2, P(dist, s, t, r, c))))',
            'forall(r, 0, rows, implies(r <= k3, P(dist, s, t, r, col)))',
        ]),
    },
)
REG.targets = ['levenshtein.levenshtein_distance']
