"""C19: expressions.get_member never passes an underscore name to getattr; Expression.get_value resolves identifiers only
through the supplied locals, then globals."""
import ast
from pyvc.spec import Registry
from .common import REG as COMMON

REG = Registry().merged(COMMON)
REG.fields(**{'name': 'str', 'offset': 'int'})
# the property as the precondition of the only attribute read: getattr is reached only with a name that does not start
# with an underscore
REG.contract('builtins.getattr', params={'obj': 'opaque', 'name': 'str'}, returns='opaque', pure=True,
             requires=['not (len(name) > 0 and name[0] == 95)'],
             trusted='getattr(obj, name) reads exactly the attribute called name')
REG.contract('expressions.get_member', params={'obj': 'opaque', 'member': 'ref[Token]'},
             raises={'ParseError': None},
             ensures=['isinstance(member, IdentifierToken)', 'not (len(member.name) > 0 and member.name[0] == 95)'],
             note='normal return implies the member is an identifier whose name has no leading underscore; every other '
                  'case raises ParseError')
REG.targets = ['expressions.get_member']

WHITELIST = ['abs', 'all', 'any', 'ascii', 'bin', 'bool', 'bytearray', 'bytes', 'chr', 'complex', 'dict', 'enumerate', 'filter',
             'float', 'frozenset', 'hash', 'hex', 'id', 'int', 'iter', 'len', 'list', 'map', 'max', 'min', 'oct', 'ord', 'round',
             'set', 'slice', 'sorted', 'str', 'sum', 'tuple', 'zip']


def _whitelist_is_documented(repo):
    """Mechanical premise: DEFAULT_GLOBALS is the dict comprehension over exactly the documented built-ins."""
    expr = repo.module_consts.get('expressions', {}).get('DEFAULT_GLOBALS')
    if not isinstance(expr, ast.DictComp) or ast.unparse(expr.key) != 'obj.__name__' or ast.unparse(expr.value) != 'obj' \
            or len(expr.generators) != 1 or not isinstance(expr.generators[0].iter, ast.Tuple) or expr.generators[0].ifs:
        return ['DEFAULT_GLOBALS is no longer the comprehension {obj.__name__: obj for obj in (...)}']
    names = []
    for e in expr.generators[0].iter.elts:
        if not isinstance(e, ast.Name):
            return [f'DEFAULT_GLOBALS contains a non-name entry {ast.unparse(e)}']
        names.append(e.id)
    extra = sorted(set(names) - set(WHITELIST))
    missing = sorted(set(WHITELIST) - set(names))
    errs = []
    if extra:
        errs.append(f'DEFAULT_GLOBALS exposes names outside the documented whitelist: {extra}')
    if missing:
        errs.append(f'documented built-ins missing from DEFAULT_GLOBALS: {missing}')
    return errs


REG.side_checks.append(_whitelist_is_documented)
