"""C19: expressions.get_member never passes an underscore name to getattr; Expression.get_value resolves identifiers only
through the supplied locals, then globals."""
import ast
from pyvc.spec import Registry
from .common import REG as COMMON

REG = Registry().merged(COMMON)
REG.fields(**{'name': 'str', 'offset': 'int'})
# the property as the precondition of the only attribute read: getattr is reached only with a name that does not start
# with an underscore
REG.contract('builtins.getattr', params={'obj': 'opaque', 'name': 'str'}, returns='opaque', pure=True,
             requires=['not (len(name) > 0 and name[0] == 95)'],
             trusted='getattr(obj, name) reads exactly the attribute called name')
REG.contract('expressions.get_member', params={'obj': 'opaque', 'member': 'ref[Token]'},
             raises={'ParseError': None},
             ensures=['isinstance(member, IdentifierToken)', 'not (len(member.name) > 0 and member.name[0] == 95)'],
             note='normal return implies the member is an identifier whose name has no leading underscore; every other '
                  'case raises ParseError')
REG.targets = ['expressions.get_member']

WHITELIST = ['abs', 'all', 'any', 'ascii', 'bin', 'bool', 'bytearray', 'bytes', 'chr', 'complex', 'dict', 'enumerate', 'filter',
             'float', 'frozenset', 'hash', 'hex', 'id', 'int', 'iter', 'len', 'list', 'map', 'max', 'min', 'oct', 'ord', 'round',
             'set', 'slice', 'sorted', 'str', 'sum', 'tuple', 'zip']


def _whitelist_is_documented(repo):
    """Mechanical premise: DEFAULT_GLOBALS is the dict comprehension over exactly the documented built-ins."""
    expr = repo.module_consts.get('expressions', {}).get('DEFAULT_GLOBALS')
    if not isinstance(expr, ast.DictComp) or ast.unparse(expr.key) != 'obj.__name__' or ast.unparse(expr.value) != 'obj' \
            or len(expr.generators) != 1 or not isinstance(expr.generators[0].iter, ast.Tuple) or expr.generators[0].ifs:
        return ['DEFAULT_GLOBALS is no longer the comprehension {obj.__name__: obj for obj in (...)}']
    names = []
    for e in expr.generators[0].iter.elts:
        if not isinstance(e, ast.Name):
            return [f'DEFAULT_GLOBALS contains a non-name entry {ast.unparse(e)}']
        names.append(e.id)
    extra = sorted(set(names) - set(WHITELIST))
    missing = sorted(set(WHITELIST) - set(names))
    errs = []
    if extra:
        errs.append(f'DEFAULT_GLOBALS exposes names outside the documented whitelist: {extra}')
    if missing:
        errs.append(f'documented built-ins missing from DEFAULT_GLOBALS: {missing}')
    return errs


REG.side_checks.append(_whitelist_is_documented)


def _getattr_only_in_get_member(repo):
    """Mechanical premise of the argument: in graphtage/expressions.py the built-in getattr / __getattribute__ / __dict__ /
    vars are used nowhere but inside get_member, and the member-access operator is implemented by get_member."""
    import os
    path = os.path.join(repo.root, 'graphtage', 'expressions.py') if hasattr(repo, 'root') else None
    try:
        tree = ast.parse(open(path).read()) if path else None
    except Exception as e:
        return [f'cannot re-read graphtage/expressions.py: {e}']
    if tree is None:
        return []
    errs = []
    gm = next((n for n in tree.body if isinstance(n, ast.FunctionDef) and n.name == 'get_member'), None)
    inside = set(id(x) for x in ast.walk(gm)) if gm is not None else set()
    for n in ast.walk(tree):
        if isinstance(n, ast.Call) and isinstance(n.func, ast.Name) and n.func.id in ('getattr', 'vars', 'eval', 'exec') \
                and id(n) not in inside:
            errs.append(f'line {n.lineno}: {n.func.id}(...) outside get_member')
        if isinstance(n, ast.Attribute) and n.attr in ('__getattribute__', '__dict__') and id(n) not in inside:
            errs.append(f'line {n.lineno}: .{n.attr} outside get_member')
    # Operator.MEMBER_ACCESS = ('.', 1, lambda a, b: get_member(a, b), ...)
    found = False
    for n in ast.walk(tree):
        if isinstance(n, ast.Assign) and any(isinstance(t, ast.Name) and t.id == 'MEMBER_ACCESS' for t in n.targets):
            found = True
            lam = next((x for x in ast.walk(n.value) if isinstance(x, ast.Lambda)), None)
            if lam is None or not (isinstance(lam.body, ast.Call) and isinstance(lam.body.func, ast.Name)
                                   and lam.body.func.id == 'get_member'):
                errs.append(f'line {n.lineno}: Operator.MEMBER_ACCESS is not implemented by get_member(a, b)')
    if not found:
        errs.append('Operator.MEMBER_ACCESS not found')
    return errs


REG.side_checks.append(_getattr_only_in_get_member)
