"""C18: to_obj() of a list node is the list of its children's to_obj() values, in order and of the same length (the plain value of a
child is an uninterpreted function `objof` of the child - the structural-induction hypothesis); PLISTNode hands over to its root."""
from pyvc.spec import Registry
from .common import REG as COMMON

REG = Registry().merged(COMMON)
REG.fields(_children='tupleseq[ref[TreeNode]]', root='ref[TreeNode]')
REG.uf('objof', 'int', 'int')
REG.contract('TreeNode.to_obj', params={'self': 'ref[TreeNode]'}, returns='int', virtual=True, pure=True,
             ensures=['result == objof(self)'],
             trusted='induction hypothesis: to_obj() of a child is a function of the child (plain values identified by an id)')
S = 'self._children'
REG.contract('ListNode.to_obj', params={'self': 'ref[ListNode]'}, returns='list[int]',
             ensures=[f'len(result) == len({S})', f'forall(i, 0, len(result), result[i] == objof({S}[i]))'])
REG.contract('PLISTNode.to_obj', params={'self': 'ref[PLISTNode]'}, returns='int', ensures=['result == objof(self.root)'])
REG.targets = ['graphtage.ListNode.to_obj', 'plist.PLISTNode.to_obj']
