"""C18: to_obj() of a list node is the list of its children's to_obj() values, in order and of the same length (the plain value of a
child is an uninterpreted function `objof` of the child - the structural-induction hypothesis); PLISTNode hands over to its root."""
from pyvc.spec import Registry
from .common import REG as COMMON

REG = Registry().merged(COMMON)
REG.fields(_children='tupleseq[ref[TreeNode]]', root='ref[TreeNode]')
REG.uf('objof', 'int', 'int')
REG.contract('TreeNode.to_obj', params={'self': 'ref[TreeNode]'}, returns='int', virtual=True, pure=True,
             ensures=['result == objof(self)'],
             trusted='induction hypothesis: to_obj() of a child is a function of the child (plain values identified by an id)')
S = 'self._children'
REG.contract('ListNode.to_obj', params={'self': 'ref[ListNode]'}, returns='list[int]',
             ensures=[f'len(result) == len({S})', f'forall(i, 0, len(result), result[i] == objof({S}[i]))'])
REG.contract('PLISTNode.to_obj', params={'self': 'ref[PLISTNode]'}, returns='int', ensures=['result == objof(self.root)'])
REG.targets = ['graphtage.ListNode.to_obj', 'plist.PLISTNode.to_obj']

# MappingNode.to_obj: the real dict comprehension over items(); the plain keys must be pairwise distinct (a mapping built by a
# loader has distinct keys; equal plain keys would collapse entries), then the result lists (objof(key), objof(value)) in item order
REG.fields(mitems='list[tuple[ref[TreeNode],ref[KeyValuePairNode]]]', key='ref[TreeNode]', value='ref[TreeNode]')
REG.contract('MappingNode.items', params={'self': 'ref[MappingNode]'}, returns='list[tuple[ref[TreeNode],ref[TreeNode]]]',
             virtual=True, pure=True,
             ensures=['len(result) == len(self.mitems)',
                      'forall(i, 0, len(result), result[i][0] == self.mitems[i][1].key and result[i][1] == self.mitems[i][1].value)'],
             trusted='MappingNode.items against the ghost item list (proved in contracts.mapping_items for MappingNode and FixedKeyDictNode)')
MI = 'self.mitems'
REG.contract('MappingNode.to_obj', params={'self': 'ref[MappingNode]'}, returns='dict[int,int]',
             requires=[f'forall(a, 0, len({MI}), forall(b, 0, len({MI}), implies(a < b, objof({MI}[a][1].key) != objof({MI}[b][1].key))))'],
             ensures=[f'len(result) == len({MI})',
                      f'forall(i, 0, len(result), result[i][0] == objof({MI}[i][1].key) and result[i][1] == objof({MI}[i][1].value))'])
REG.targets += ['graphtage.MappingNode.to_obj']
