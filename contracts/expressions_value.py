"""C19: Expression.get_value - an identifier resolves through locals, then globals, otherwise KeyError."""
from pyvc.spec import Registry
from .common import REG as COMMON

REG = Registry().merged(COMMON)
REG.fields(**{'name': 'strid', 'value': 'int', '_raw': 'strid'})
REG.uf('in_locals', 'int', 'bool')
REG.uf('in_globals', 'int', 'bool')
REG.uf('loc', 'int', 'int')
REG.uf('glob', 'int', 'int')
for d, inn, get in (('locals', 'in_locals', 'loc'), ('globals', 'in_globals', 'glob')):
    REG.contract(f'{d}.__contains__', params={'k': 'strid'}, returns='bool', pure=True, ensures=[f'result == {inn}(k)'],
                 trusted='dict membership')
    REG.contract(f'{d}.__getitem__', params={'k': 'strid'}, returns='int', pure=True, requires=[f'{inn}(k)'],
                 ensures=[f'result == {get}(k)'], trusted='dict lookup')
REG.contract('Token.raw_token', params={'self': 'ref[Token]'}, returns='int', virtual=True, pure=True,
             trusted='raw text of a literal token')
REG.contract(
    'Expression.get_value', params={'token': 'ref[Token]', 'locals': 'opaque:locals', 'globals': 'opaque:globals'},
    returns='int',
    raises={'KeyError': 'isinstance(token, IdentifierToken) and not in_locals(token.name) and not in_globals(token.name)',
            'ValueError': 'not isinstance(token, IdentifierToken) and not isinstance(token, NumericToken) '
                          'and not isinstance(token, StringToken)'},
    ensures=[
        # the only names an identifier can resolve to: the supplied locals first, then the supplied globals
        'implies(isinstance(token, IdentifierToken) and in_locals(token.name), result == loc(token.name))',
        'implies(isinstance(token, IdentifierToken) and not in_locals(token.name), in_globals(token.name) and result == glob(token.name))',
    ])
REG.targets = ['expressions.Expression.get_value']
