"""C16 local lemmas on the Fibonacci heap: key order on live nodes, reversed comparator, size accounting, push keeps the
minimum pointer minimal w.r.t. the new node, decrease_key rejects increases and updates the minimum pointer.
(The global heap-order / ring invariant of the pointer-linked forest is out of reach: bounded stand-in.)"""
from pyvc.spec import Registry, LoopSpec
from .common import REG as COMMON

REG = Registry().merged(COMMON)
REG.fields(**{
    'HeapNode.item': 'int', 'HeapNode.key': 'int', 'parent': 'optref[HeapNode]', 'child': 'optref[HeapNode]',
    'left': 'optref[HeapNode]', 'right': 'optref[HeapNode]', 'degree': 'int', 'mark': 'bool', 'deleted': 'bool',
    '_min': 'optref[HeapNode]', '_root': 'optref[HeapNode]', '_n': 'int',
    'ReversedComparator.key': 'int',
})
REG.uf('keyfn', 'int', 'int', 'int')
LT = lambda a, b: f'(({a}.deleted and not {b}.deleted) or {a}.key < {b}.key)'

REG.contract('HeapNode.__lt__', params={'self': 'ref[HeapNode]', 'other': 'ref[HeapNode]'}, returns='bool', pure=True,
             ensures=['result == ' + LT('self', 'other'),
                      # restricted to live nodes it is the key order
                      'implies(not self.deleted and not other.deleted, result == (self.key < other.key))'])
REG.contract('HeapNode.__le__', params={'self': 'ref[HeapNode]', 'other': 'ref[HeapNode]'}, returns='bool', pure=True,
             ensures=['implies(not self.deleted and not other.deleted, result == (self.key <= other.key))'])
REG.contract('ReversedComparator.__lt__', params={'self': 'ref[ReversedComparator]', 'other': 'ref[ReversedComparator]'},
             returns='bool', pure=True, ensures=['result == (self.key > other.key)'])
REG.contract('ReversedComparator.__le__', params={'self': 'ref[ReversedComparator]', 'other': 'ref[ReversedComparator]'},
             returns='bool', pure=True, ensures=['result == (self.key >= other.key)'])

# the key function stored on the heap object
REG.contract('FibonacciHeap.key', params={'self': 'ref[FibonacciHeap]', 'a': 'int'}, returns='int', virtual=True, pure=True,
             ensures=['result == keyfn(self, a)'], trusted='the user-supplied key function is pure')
REG.contract('FibonacciHeap.__len__', params={'self': 'ref[FibonacciHeap]'}, returns='int', pure=True,
             ensures=['result == self._n'])
REG.contract('FibonacciHeap.__bool__', params={'self': 'ref[FibonacciHeap]'}, returns='bool', pure=True,
             ensures=['result == (self._n > 0)'])
REG.contract('FibonacciHeap.clear', params={'self': 'ref[FibonacciHeap]'}, modifies=['_min@self', '_root@self', '_n@self'],
             ensures=['self._n == 0 and self._min == None and self._root == None'])
REG.contract(
    'FibonacciHeap.push', params={'self': 'ref[FibonacciHeap]', 'item': 'int'}, returns='ref[HeapNode]', allocates=True,
    requires=['implies(self._root != None, self._root.right != None)', 'self._n >= 0'],
    modifies=['_min@self', '_root@self', '_n@self', 'left', 'right'],
    ensures=[
        'self._n == old(self._n) + 1',
        'isnew(result) and result.item == item and result.key == keyfn(self, item) and not result.deleted',
        'result.parent == None and result.child == None and result.degree == 0',
        # the minimum pointer stays minimal with respect to the new node
        'self._min != None',
        'implies(old(self._min) == None, self._min == result)',
        'implies(old(self._min) != None, self._min == result or self._min == old(self._min))',
        'not ' + LT('result', 'self._min') + ' or self._min == result',
        # the node is spliced into the root ring next to the root
        'implies(old(self._root) == None, self._root == result and result.left == result and result.right == result)',
        'implies(old(self._root) != None, self._root == old(self._root) and self._root.right == result and result.left == self._root '
        'and result.right == old(self._root.right) and result.right.left == result)',
    ])
REG.contract('FibonacciHeap._cut', params={'self': 'ref[FibonacciHeap]', 'x': 'ref[HeapNode]', 'y': 'ref[HeapNode]'},
             modifies=['parent', 'child', 'left', 'right', 'degree', 'mark', '_root@self'],
             trusted='_cut: re-links x into the root list; keys, deleted flags, _min and _n are untouched (frame only)')
REG.contract('FibonacciHeap._cascading_cut', params={'self': 'ref[FibonacciHeap]', 'y': 'ref[HeapNode]'},
             modifies=['parent', 'child', 'left', 'right', 'degree', 'mark', '_root@self'],
             trusted='_cascading_cut: re-links ancestors; keys, deleted flags, _min and _n are untouched (frame only)')
REG.contract(
    'FibonacciHeap.decrease_key', params={'self': 'ref[FibonacciHeap]', 'x': 'ref[HeapNode]', 'k': 'int'},
    requires=['self._min != None'],
    raises={'ValueError': 'x.key < k'},
    modifies=['HeapNode.key@x', 'key@x', '_min@self', 'parent', 'child', 'left', 'right', 'degree', 'mark', '_root@self'],
    ensures=['x.key == k', 'self._n == old(self._n)', 'self._min == x or self._min == old(self._min)',
             'not ' + LT('x', 'self._min') + ' or self._min == x'])
REG.targets = ['fibonacci.HeapNode.__lt__', 'fibonacci.HeapNode.__le__', 'fibonacci.ReversedComparator.__lt__',
               'fibonacci.ReversedComparator.__le__', 'fibonacci.FibonacciHeap.__len__', 'fibonacci.FibonacciHeap.__bool__',
               'fibonacci.FibonacciHeap.clear', 'fibonacci.FibonacciHeap.push', 'fibonacci.FibonacciHeap.decrease_key']
