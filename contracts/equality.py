"""C02 / C08: the node equality definitions the zero-cost short-circuits rest on (each __eq__ is pinned to its documented
component-wise definition; equality of sub-nodes is the abstract relation eqv)."""
from pyvc.spec import Registry
from .nodes import REG as NODES
from .xmledit import REG as XMLE

REG = Registry().merged(NODES).merged(XMLE)
REG.fields(text='optref[StringNode]', tag='ref[StringNode]', attrib='ref[TreeNode]')

REG.contract('KeyValuePairNode.__eq__', params={'self': 'ref[KeyValuePairNode]', 'other': 'ref[TreeNode]'}, returns='bool',
             pure=True,
             ensures=['result == (isinstance(other, KeyValuePairNode) and eqv(self.key, other.key) and eqv(self.value, other.value))'])
REG.contract('SequenceNode.__eq__', params={'self': 'ref[ListNode]', 'other': 'ref[TreeNode]'}, returns='bool', pure=True,
             requires=['isinstance(other, ListNode) or not isinstance(other, SequenceNode)'],
             ensures=['result == (isinstance(other, SequenceNode) and len(self._children) == len(other._children) and '
                      'forall(i, 0, len(self._children), eqv(self._children[i], other._children[i])))'],
             note='list instance (children are a tuple): equal iff same length and position-wise equal children, i.e. order matters (C08)')
REG.contract('LeafNode.__eq__', params={'self': 'ref[LeafNode]', 'other': 'ref[LeafNode]'}, returns='bool', pure=True,
             ensures=['result == seqeq(self.object, other.object)'],
             note='leaf vs leaf: equal payloads (payload modelled by its text; exact for StringNode)')
REG.contract('XMLElement.edits', params={'self': 'ref[XMLElement]', 'node': 'ref[XMLElement]'}, returns='ref[Edit]',
             allocates=True,
             ensures=['result.from_node == self and result.to_node == node',
                      'implies(eqv(self, node), typeis(result, "Match") and result._constant_cost == 0)',
                      'implies(not eqv(self, node), typeis(result, "XMLElementEdit"))'])
REG.targets = ['graphtage.KeyValuePairNode.__eq__', 'sequences.SequenceNode.__eq__', 'graphtage.LeafNode.__eq__',
               'xml.XMLElement.edits']

# ------------------------------------------------------------------------------------------------ ordering of key/value pairs (C08, C07)
# DictNode.from_dict sorts the pairs to make the child order canonical: the pair order must be the lexicographic order
# (key first, then value) over the abstract node order nodelt.
REG.uf('nodelt', 'int', 'int', 'bool')
REG.contract('TreeNode.__lt__', params={'self': 'ref[TreeNode]', 'other': 'ref[TreeNode]'}, returns='bool', virtual=True,
             pure=True, ensures=['result == nodelt(self, other)'],
             trusted='abstract order on nodes: x < y is a pure function of the two nodes (LeafNode.__lt__ compares payloads, '
                     'falling back to their text)')
REG.contract('KeyValuePairNode.__lt__', params={'self': 'ref[KeyValuePairNode]', 'other': 'ref[TreeNode]'}, returns='bool',
             pure=True,
             ensures=['implies(isinstance(other, KeyValuePairNode), result == (nodelt(self.key, other.key) or '
                      '(eqv(self.key, other.key) and nodelt(self.value, other.value))))',
                      'implies(not isinstance(other, KeyValuePairNode), result == nodelt(self.key, other))'])
REG.targets.append('graphtage.KeyValuePairNode.__lt__')
