"""C09: every data format builds its tree through json.build_tree(<parsed data>, options); the YAML / plist loaders
afterwards only clear the `quoted` flag, which node equality does not read."""
import ast
from pyvc.spec import Registry, LoopSpec
from .common import REG as COMMON

REG = Registry().merged(COMMON)
REG.fields(quoted='bool', root='ref[TreeNode]')
for f in ('fh', 'json_parse', 'json5_parse', 'plist_parse', 'nodeval', 'optkey'):
    REG.uf(f, 'int', 'int')
REG.uf('treeval', 'int', 'int', 'int')
REG.uf('yaml_ndocs', 'int', 'int')
REG.uf('yaml_doc', 'int', 'int', 'int')
REG.contract('builtins.open', params={'path': 'strid'}, returns='int', pure=True, ensures=['result == fh(path)'],
             trusted='open(path): a handle determined by the path (file contents are fixed during a run)')
REG.contract('json.load', params={'f': 'int'}, returns='optdata', pure=True, ensures=['notnone(result) and result == json_parse(f)'],
             trusted='stdlib json.load: the parsed data is a function of the file')
REG.contract('json5.load', params={'f': 'int'}, returns='optdata', pure=True, ensures=['notnone(result) and result == json5_parse(f)'],
             trusted='json5.load: the parsed data is a function of the file')
REG.contract('plistlib.load', params={'f': 'int'}, returns='optdata', pure=True, ensures=['notnone(result) and result == plist_parse(f)'],
             trusted='plistlib.load: the parsed data is a function of the file')
REG.contract('yaml.load_all', params={'stream': 'int'}, returns='list[optdata]', pure=True,
             ensures=['len(result) == yaml_ndocs(stream)',
                      'forall(i, 0, len(result), notnone(result[i]) and result[i] == yaml_doc(stream, i))'],
             trusted='yaml.load_all: the document stream is a function of the file')
# json.build_tree is a function of (data, options): abstracted here; its own conversion is C18
REG.contract('json.build_tree', params={'python_obj': 'optdata', 'options': 'optref[BuildOptions]', 'force_leaf_node': 'bool'},
             returns='ref[TreeNode]', allocates=True,
             ensures=['isnew(result)', 'nodeval(result) == treeval(ite(isnone(python_obj), 0, python_obj), optkey(options))'],
             trusted='json.build_tree(data, options) depends only on its arguments (reads no mutable global except the '
                     'progress printer); data values are identified by integer ids')
REG.contract('TreeNode.dfs', params={'self': 'ref[TreeNode]'}, returns='list[ref[TreeNode]]', virtual=True, pure=True,
             trusted='TreeNode.dfs: some finite list of nodes')

TV = lambda parse: f'nodeval(result) == treeval({parse}(fh(path)), optkey(options))'
REG.contract('JSON.build_tree', self_cls='JSON', params={'self': 'ref[JSON]', 'path': 'strid', 'options': 'optref[BuildOptions]'},
             returns='ref[TreeNode]', allocates=True, ensures=[TV('json_parse')])
REG.contract('JSON5.build_tree', self_cls='JSON5', params={'self': 'ref[JSON5]', 'path': 'strid', 'options': 'optref[BuildOptions]'},
             returns='ref[TreeNode]', allocates=True, ensures=[TV('json5_parse')])
REG.contract('yaml.build_tree', params={'path': 'strid', 'options': 'optref[BuildOptions]'}, returns='ref[TreeNode]',
             allocates=True,
             ensures=['implies(yaml_ndocs(fh(path)) == 1, nodeval(result) == treeval(yaml_doc(fh(path), 0), optkey(options)))',
                      'implies(yaml_ndocs(fh(path)) == 0, nodeval(result) == treeval(0, optkey(options)))', 'isnew(result)'])
REG.contract('YAML.build_tree', self_cls='YAML', params={'self': 'ref[YAML]', 'path': 'strid', 'options': 'optref[BuildOptions]'},
             returns='ref[TreeNode]', allocates=True, modifies=['quoted'],
             ensures=['implies(yaml_ndocs(fh(path)) == 1, nodeval(result) == treeval(yaml_doc(fh(path), 0), optkey(options)))'],
             loops={0: LoopSpec(index='k', modifies=['quoted'], invariant=['True'])})
REG.contract('plist.build_tree', params={'path': 'strid', 'options': 'optref[BuildOptions]'}, returns='ref[PLISTNode]',
             allocates=True,
             ensures=['typeis(result, "PLISTNode")', 'nodeval(result.root) == treeval(plist_parse(fh(path)), optkey(options))', 'isnew(result)'])
REG.contract('PLIST.build_tree', self_cls='PLIST', params={'self': 'ref[PLIST]', 'path': 'strid', 'options': 'optref[BuildOptions]'},
             returns='ref[TreeNode]', allocates=True, modifies=['quoted'],
             ensures=['typeis(result, "PLISTNode")', 'nodeval(result.root) == treeval(plist_parse(fh(path)), optkey(options))'],
             loops={0: LoopSpec(index='k', modifies=['quoted'], invariant=['True'])})


def _eq_ignores_quoted(repo):
    """Mechanical premise: node equality / hashing never reads `quoted` (so clearing it cannot change equality)."""
    errs = []
    for cls, ci in repo.classes.items():
        if not repo.is_subclass(cls, 'TreeNode'):
            continue
        for m in ('__eq__', '__hash__', '__lt__'):
            fi = ci.methods.get(m)
            if fi is None:
                continue
            for n in ast.walk(fi.node):
                if isinstance(n, ast.Attribute) and n.attr == 'quoted':
                    errs.append(f'{cls}.{m} reads .quoted')
    return errs


REG.side_checks.append(_eq_ignores_quoted)
REG.targets = ['json.JSON.build_tree', 'json.JSON5.build_tree', 'yaml.build_tree', 'yaml.YAML.build_tree', 'plist.build_tree',
               'plist.PLIST.build_tree']
