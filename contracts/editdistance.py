"""levenshtein.EditDistance: matrix cells, predecessor choice, back-trace (C01, C03, C11) and the typestate /
representation invariant that makes every public operation safe in every order (C05)."""
from pyvc.spec import Registry, LoopSpec
from .core import REG as CORE
from .bounded import REG as BND

REG = Registry().merged(CORE).merged(BND)
REG.fields(**{
    'EditDistance.from_seq': 'tupleseq[ref[TreeNode]]', 'EditDistance.to_seq': 'tupleseq[ref[TreeNode]]',
    'penalty': 'int',
    'shared_prefix': 'list[tuple[ref[TreeNode],ref[TreeNode]]]',
    'reversed_shared_suffix': 'list[tuple[ref[TreeNode],ref[TreeNode]]]',
    'edit_matrix': 'optlist[list[optref[Edit]]]',
    'costs': 'list[list[int]]', 'path_costs': 'optlist[list[int]]',
    '_fringe_row': 'int', '_fringe_col': 'int', '_last_fringe': 'list[tuple[int,int]]',
    '_EditDistance__edits': 'optlist[ref[Edit]]',
    # ghost: coordinates of the back-trace path stored in __edits (model fields, written only by ghost code)
    'gR': 'list[int]', 'gC': 'list[int]',
})
M = 'len(self.to_seq)'
N = 'len(self.from_seq)'
EM = 'self.edit_matrix'
WF = lambda e: f'(0 <= {e}.lb and {e}.lb <= {e}.final and {e}.final <= {e}.ub and {e}.fuel >= 0)'

# ---- representation invariant -----------------------------------------------------------------------------------
REG.macro('ed_shape', ['self'],
          f'len(self.costs) == {M} + 1 and len(self.costs[{M}]) == {N} + 1 and '
          f'implies(not isnone({EM}), '
          f'len({EM}) == {M} + 1 and notnone(self.path_costs) and len(self.path_costs) == {M} + 1 and '
          f'forall(r, 0, {M} + 1, len({EM}[r]) == {N} + 1 and len(self.path_costs[r]) == {N} + 1 '
          f'and len(self.costs[r]) == {N} + 1)) and '
          f'implies(isnone({EM}), notnone(self._EditDistance__edits))')
# cell typing: first row removes the source element, first column inserts the target element, inner cells pair them
REG.macro('ed_typed', ['self'],
          f'implies(not isnone({EM}), '
          f'forall(c, 1, {N} + 1, implies({EM}[0][c] != None, typeis({EM}[0][c], "Remove") and {EM}[0][c].from_node == self.from_seq[c - 1])) and '
          f'forall(r, 1, {M} + 1, implies({EM}[r][0] != None, typeis({EM}[r][0], "Insert") and {EM}[r][0].from_node == self.to_seq[r - 1])) and '
          f'forall(r, 1, {M} + 1, forall(c, 1, {N} + 1, implies({EM}[r][c] != None, '
          f'{EM}[r][c].from_node == self.from_seq[c - 1] and {EM}[r][c].to_node == self.to_seq[r - 1] '
          f'and not isinstance({EM}[r][c], Remove) and not isinstance({EM}[r][c], Insert)))))')
# every cell that exists satisfies the Bounded well-formedness
REG.macro('ed_cellwf', ['self'],
          f'implies(not isnone({EM}), forall(r, 0, {M} + 1, forall(c, 0, {N} + 1, implies({EM}[r][c] != None, ' + WF(f'{EM}[r][c]') + '))))')
# fringe position and fill state: exactly the anti-diagonals 1..d are filled
D = '(self._fringe_row + self._fringe_col)'
REG.macro('ed_fringe', ['self'],
          f'-1 <= self._fringe_row and self._fringe_row <= {M} and 0 <= self._fringe_col and self._fringe_col <= {N} and '
          f'(self._fringe_col == 0 or self._fringe_row == {M}) and '
          f'implies(not isnone({EM}), forall(r, 0, {M} + 1, forall(c, 0, {N} + 1, '
          f'iff({EM}[r][c] != None, r + c <= {D} and r + c > 0)))) and '
          f'implies({D} >= 1, len(self._last_fringe) >= 1) and '
          f'forall(k, 0, len(self._last_fringe), 0 <= self._last_fringe[k][0] and self._last_fringe[k][0] <= {M} and '
          f'0 <= self._last_fringe[k][1] and self._last_fringe[k][1] <= {N})')
REG.macro('ed_complete', ['self'], f'isnone({EM}) or {EM}[{M}][{N}] != None')
# the stored script: suffix matches followed by a monotone lattice path from (m, n) to (0, 0) whose steps cover the
# source / target elements they pass (this is the local partition of C01 for EditDistance)
REG.macro('ed_step', ['self', 'e', 'r', 'c', 'r2', 'c2'],
          f'0 <= r and r <= {M} and 0 <= c and c <= {N} and (r > 0 or c > 0) and e != None and ('
          f'(r2 == r - 1 and c2 == c - 1 and r > 0 and c > 0 and e.from_node == self.from_seq[c - 1] and e.to_node == self.to_seq[r - 1] '
          f' and not isinstance(e, Remove) and not isinstance(e, Insert)) or '
          f'(r2 == r - 1 and c2 == c and r > 0 and typeis(e, "Insert") and e.from_node == self.to_seq[r - 1]) or '
          f'(r2 == r and c2 == c - 1 and c > 0 and typeis(e, "Remove") and e.from_node == self.from_seq[c - 1]))')
S = 'len(self.reversed_shared_suffix)'
REG.macro('ed_pathof', ['self', 'E', 'gR', 'gC', 'r_end', 'c_end'],
          f'len(gR) == len(gC) and len(E) == {S} + len(gR) and '
          f'forall(j, 0, {S}, typeis(E[j], "Match") and E[j].from_node == self.reversed_shared_suffix[j][0] '
          f'and E[j].to_node == self.reversed_shared_suffix[j][1]) and '
          f'implies(len(gR) > 0, gR[0] == {M} and gC[0] == {N}) and '
          f'implies(len(gR) == 0, r_end == {M} and c_end == {N}) and '
          f'forall(j, 0, len(gR), ed_step(self, E[{S} + j], gR[j], gC[j], '
          f'ite(j + 1 < len(gR), gR[j + 1], r_end), ite(j + 1 < len(gR), gC[j + 1], c_end)))')
REG.macro('ed_path', ['self'],
          'implies(notnone(self._EditDistance__edits), ed_pathof(self, self._EditDistance__edits, self.gR, self.gC, 0, 0) '
          f'and implies({M} > 0 or {N} > 0, ed_complete(self)))')
REG.macro('ed_base', ['self'],
          'self.penalty >= 0 and notnone(self._cost_upper_bound) and self._constant_cost <= self._cost_upper_bound')
REG.macro('ed_wf', ['self'],
          'ed_base(self) and ed_shape(self) and ed_typed(self) and ed_cellwf(self) and ed_fringe(self) and ed_path(self)')
EDITS_KEPT = ('implies(notnone(old(self._EditDistance__edits)), seqeq(self._EditDistance__edits, old(self._EditDistance__edits)) '
              'and seqeq(self.gR, old(self.gR)) and seqeq(self.gC, old(self.gC)))')
MOD_SELF = ['edit_matrix@self', 'costs@self', 'path_costs@self', '_fringe_row@self', '_fringe_col@self', '_last_fringe@self',
            '_EditDistance__edits@self', 'gR@self', 'gC@self', 'lb', 'ub', 'fuel']

# ------------------------------------------------------------------------------------------------ helpers (trusted)
REG.contract('bounds.make_distinct', params={}, modifies=['lb', 'ub', 'fuel'],
             ensures=['forall_ref(e, implies(old' + WF('e') + ', ' + WF('e') + ' and old(e.lb) <= e.lb and e.ub <= old(e.ub)))'],
             trusted='make_distinct only tightens Bounded objects (decided by the bounded stand-in of C17)')

# ------------------------------------------------------------------------------------------------ is_complete
REG.macro('ed_emshape', ['self'],
          f'isnone({EM}) or ({M} >= 0 and {N} >= 0 and len({EM}) == {M} + 1 and forall(r, 0, {M} + 1, len({EM}[r]) == {N} + 1))')
REG.contract('EditDistance.is_complete', params={'self': 'ref[EditDistance]'}, returns='bool', pure=True,
             requires=['ed_emshape(self)'], ensures=['result == ed_complete(self)'])

# ------------------------------------------------------------------------------------------------ _add_node
REG.contract(
    'EditDistance._add_node', params={'self': 'ref[EditDistance]', 'row': 'int', 'col': 'int'}, returns='bool',
    allocates=True,
    requires=['ed_base(self)', 'ed_shape(self)', 'ed_typed(self)', 'ed_cellwf(self)', f'not isnone({EM})',
              f'0 <= row and row <= {M}', f'0 <= col and col <= {N}'],
    modifies=['edit_matrix@self', 'costs@self', 'path_costs@self'],
    ensures=[
        'ed_shape(self)', 'ed_typed(self)', 'ed_cellwf(self)', f'not isnone({EM})',
        f'implies(not result, old({EM}[row][col]) != None and seqeq({EM}, old({EM})))',
        f'implies(result, old({EM}[row][col]) == None)',
        f'implies(result and (row > 0 or col > 0), {EM}[row][col] != None)',
        f'implies(result and row == 0 and col == 0, {EM}[row][col] == None)',
        f'forall(r, 0, {M} + 1, forall(c, 0, {N} + 1, implies(r != row or c != col, {EM}[r][c] == old({EM}[r][c]))))',
    ])

# ------------------------------------------------------------------------------------------------ _best_match
CELLS_OK = (f'implies(row > 0 and col > 0, {EM}[row][col] != None) and '
            f'implies(row > 0, {EM}[row][0] != None) and implies(col > 0, {EM}[0][col] != None)')
REG.contract(
    'EditDistance._best_match', params={'self': 'ref[EditDistance]', 'row': 'int', 'col': 'int'},
    returns='tuple[int,int,ref[Edit]]',
    requires=['ed_shape(self)', 'ed_cellwf(self)', f'not isnone({EM})', f'0 <= row and row <= {M}', f'0 <= col and col <= {N}',
              'row > 0 or col > 0', CELLS_OK],
    modifies=['costs@self', 'path_costs@self', 'lb', 'ub', 'fuel'],
    ensures=[
        'ed_shape(self)', 'ed_cellwf(self)', f'seqeq({EM}, old({EM}))',
        # the predecessor is one of the three neighbours and the returned edit is the matching one (C01 back-trace)
        f'(result[0] == row - 1 and result[1] == col - 1 and row > 0 and col > 0 and result[2] == {EM}[row][col]) or '
        f'(result[0] == row - 1 and result[1] == col and row > 0 and result[2] == {EM}[row][0]) or '
        f'(result[0] == row and result[1] == col - 1 and col > 0 and result[2] == {EM}[0][col])',
        'result[2] != None',
        # C03/C11 local step: the cell cost is the predecessor's cost plus the chosen edit's upper bound
        'implies(row > 0 and col > 0, self.costs[row][col] == self.costs[result[0]][result[1]] + result[2].ub)',
        f'forall(r, 0, {M} + 1, forall(c, 0, {N} + 1, implies(r != row or c != col, '
        f'self.costs[r][c] == old(self.costs[r][c]))))',
    ])

# ------------------------------------------------------------------------------------------------ _fringe_diagonal
FD_LEN = f'ite(self._fringe_row < 0 or self._fringe_col > {N}, 0, min(self._fringe_row, {N} - self._fringe_col) + 1)'
REG.contract(
    'EditDistance._fringe_diagonal', params={'self': 'ref[EditDistance]'}, yields='tuple[int,int]', pure=True,
    requires=[],
    ensures=[f'len(result) == {FD_LEN}',
             'forall(k, 0, len(result), result[k][0] == self._fringe_row - k and result[k][1] == self._fringe_col + k)'],
    loops={0: LoopSpec(variant='row + 1', invariant=[
        'row == self._fringe_row - len(yielded) and col == self._fringe_col + len(yielded)',
        f'len(yielded) <= {FD_LEN}',
        'forall(k, 0, len(yielded), yielded[k][0] == self._fringe_row - k and yielded[k][1] == self._fringe_col + k)',
    ])})

# ------------------------------------------------------------------------------------------------ _next_fringe
REG.contract(
    'EditDistance._next_fringe', params={'self': 'ref[EditDistance]'}, returns='bool', allocates=True,
    requires=['ed_wf(self)', f'{M} > 0 or {N} > 0'],
    modifies=['edit_matrix@self', 'costs@self', 'path_costs@self', '_fringe_row@self', '_fringe_col@self', '_last_fringe@self'],
    ensures=['ed_wf(self)', 'implies(not result, ed_complete(self))', f'implies(result, not isnone({EM}))',
             f'implies(isnone(old({EM})), isnone({EM}))',
             f'implies(result, {D} >= 0)',
             'implies(old(ed_complete(self)), not result)',
             f'implies(not old(ed_complete(self)), {D} == old({D}) + 1)'],
    loops={0: LoopSpec(index='j', modifies=['edit_matrix@self', 'costs@self', 'path_costs@self'], invariant=[
        'ed_base(self)', 'ed_shape(self)', 'ed_typed(self)', 'ed_cellwf(self)', f'not isnone({EM})', 'ed_path(self)',
        f'-1 <= self._fringe_row and self._fringe_row <= {M} and 0 <= self._fringe_col and self._fringe_col <= {N}',
        f'self._fringe_col == 0 or self._fringe_row == {M}', f'{D} >= 0',
        f'implies({D} >= 1, len(self._last_fringe) >= 1)',
        f'forall(k, 0, len(self._last_fringe), 0 <= self._last_fringe[k][0] and self._last_fringe[k][0] <= {M} and '
        f'0 <= self._last_fringe[k][1] and self._last_fringe[k][1] <= {N})',
        # cells of earlier diagonals are filled, the first j cells of this diagonal are filled, nothing else is
        f'forall(r, 0, {M} + 1, forall(c, 0, {N} + 1, iff({EM}[r][c] != None, r + c > 0 and '
        f'(r + c < {D} or (r + c == {D} and r > self._fringe_row - j)))))',
    ])})

# ------------------------------------------------------------------------------------------------ _cleanup / bounds / edits
REG.contract(
    'EditDistance._cleanup', params={'self': 'ref[EditDistance]'}, allocates=True,
    requires=['ed_wf(self)'], modifies=MOD_SELF,
    ensures=['ed_wf(self)', EDITS_KEPT, f'implies(isnone(old({EM})), isnone({EM}))',
             'implies(old(ed_complete(self)), ed_complete(self))'])
REG.contract(
    'EditDistance.bounds', params={'self': 'ref[EditDistance]'}, returns='rec[Range]', allocates=True,
    requires=['ed_wf(self)'], modifies=MOD_SELF,
    ensures=['ed_wf(self)', EDITS_KEPT, f'implies(isnone(old({EM})), isnone({EM}))',
             # bounds() changes the typestate only when the matrix is complete (it finalises the script)
             f'implies(not old(ed_complete(self)), not ed_complete(self) and isnone(self._EditDistance__edits) == isnone(old(self._EditDistance__edits)) '
             f'and self._fringe_row == old(self._fringe_row) and self._fringe_col == old(self._fringe_col))',
             'implies(old(ed_complete(self)), ed_complete(self))',
             'result.lower_bound <= result.upper_bound'],
    ghost_before={
        # numeric fact about tree sizes, not derivable from local contracts: no cell cost exceeds the constructor's
        # upper bound (monitored by the C04 stand-in, listed as an assumption)
        'return Range(max(base_bounds.lower_bound': [
            f'assume("forall(r, 0, {M} + 1, forall(c, 0, {N} + 1, self.costs[r][c] <= self._cost_upper_bound))")'],
    })
REG.contract(
    'EditDistance.edits', params={'self': 'ref[EditDistance]'}, returns='list[ref[Edit]]', allocates=True,
    requires=['ed_wf(self)'], modifies=MOD_SELF,
    ghost_init=['gR = ghost_list("int")', 'gC = ghost_list("int")'],
    ghost_after={'self.__edits = reversed_suffix': ['self.gR = gR', 'self.gC = gC']},
    ensures=[
        'ed_wf(self)', 'notnone(self._EditDistance__edits)', EDITS_KEPT,
        f'implies(isnone(old({EM})), isnone({EM}))',
        f'implies({M} > 0 or {N} > 0, ed_complete(self))',
        # the script: prefix matches, then the stored script reversed
        'len(result) == len(self.shared_prefix) + len(self._EditDistance__edits)',
        'forall(i, 0, len(self.shared_prefix), typeis(result[i], "Match"))',
        'forall(i, 0, len(self.shared_prefix), result[i].from_node == self.shared_prefix[i][0])',
        'forall(i, 0, len(self.shared_prefix), result[i].to_node == self.shared_prefix[i][1])',
        'forall(i, 0, len(self.shared_prefix), isnew(result[i]))',
        'forall(i, 0, len(self._EditDistance__edits), result[len(self.shared_prefix) + i] == '
        'self._EditDistance__edits[len(self._EditDistance__edits) - 1 - i])',
    ],
    loops={
        0: LoopSpec(variant=None, modifies=MOD_SELF, invariant=[
            'ed_wf(self)', EDITS_KEPT, f'len(reversed_suffix) == {S}',
            f'forall(j, 0, {S}, typeis(reversed_suffix[j], "Match") and reversed_suffix[j].from_node == self.reversed_shared_suffix[j][0] '
            f'and reversed_suffix[j].to_node == self.reversed_shared_suffix[j][1])',
            f'implies(isnone(old({EM})), isnone({EM}))',
            'len(gR) == 0 and len(gC) == 0',
        ]),
        1: LoopSpec(variant='row + col', modifies=['costs@self', 'path_costs@self', 'lb', 'ub', 'fuel'],
                    ghost_pre=['gR.append(row)', 'gC.append(col)'], invariant=[
            'ed_base(self)', 'ed_shape(self)', 'ed_typed(self)', 'ed_cellwf(self)', 'ed_fringe(self)',
            f'not isnone({EM})', 'ed_complete(self)', 'isnone(self._EditDistance__edits)',
            f'0 <= row and row <= {M} and 0 <= col and col <= {N}',
            'ed_pathof(self, reversed_suffix, gR, gC, row, col)',
        ]),
    })

# ------------------------------------------------------------------------------------------------ tighten_bounds
REG.contract(
    'EditDistance.tighten_bounds', params={'self': 'ref[EditDistance]'}, returns='bool', allocates=True,
    requires=['ed_wf(self)'], modifies=MOD_SELF,
    dropped_locals=['fringe_ranges', 'fringe_total', 'num_diagonals'],
    ensures=['ed_wf(self)', EDITS_KEPT, f'implies(isnone(old({EM})), isnone({EM}))',
             f'implies(not result and ({M} > 0 or {N} > 0), ed_complete(self))',
             'implies(old(ed_complete(self)), ed_complete(self))'],
    loops={
        0: LoopSpec(variant=None, modifies=MOD_SELF, invariant=[
            'ed_wf(self)', EDITS_KEPT, f'implies(isnone(old({EM})), isnone({EM}))',
            'implies(old(ed_complete(self)), ed_complete(self))',
            f'{M} > 0 or {N} > 0',
        ]),
        1: LoopSpec(index='j', modifies=['costs@self', 'path_costs@self', 'lb', 'ub', 'fuel'], invariant=[
            'ed_wf(self)', f'not isnone({EM})', f'{D} >= 1', EDITS_KEPT, 'not old(ed_complete(self))',
            f'{M} > 0 or {N} > 0',
        ]),
        2: LoopSpec(variant=f'{EM}[row][col].fuel',
                    modifies=[f'lb@{EM}[row][col]', f'ub@{EM}[row][col]', f'fuel@{EM}[row][col]'], invariant=[
            'ed_wf(self)', f'not isnone({EM})', f'{D} >= 1', EDITS_KEPT, 'not old(ed_complete(self))',
            f'0 <= row and row <= {M} and 0 <= col and col <= {N} and row + col == {D}',
            f'{M} > 0 or {N} > 0',
        ]),
    })

REG.targets = [
    'levenshtein.EditDistance.is_complete', 'levenshtein.EditDistance._add_node', 'levenshtein.EditDistance._best_match',
    'levenshtein.EditDistance._fringe_diagonal', 'levenshtein.EditDistance._next_fringe',
    'levenshtein.EditDistance._cleanup', 'levenshtein.EditDistance.bounds', 'levenshtein.EditDistance.edits',
    'levenshtein.EditDistance.tighten_bounds',
]
