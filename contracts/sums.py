"""C03: compound edits whose cost is the SUM of the costs of the sub-edits they list, for every length (sumof = prefix-sum
function introduced by its recursive definition; see pyvc.calls.spec_sum)."""
from pyvc.spec import Registry, LoopSpec
from .bounded import REG as BOUNDED
from .sequences import REG as SEQ

REG = Registry().merged(BOUNDED).merged(SEQ)

SE, TR, TI = 'self._sub_edits', 'self.to_remove', 'self.to_insert'
N1, N2, N3 = f'len({SE})', f'len({TR})', f'len({TI})'

# edits(): as in sequences.py plus the abstract range of the freshly built Remove / Insert edits
E = REG.contracts['FixedLengthSequenceEdit.edits']
# (stated with the listing index itself as the bound variable: the instantiation trigger is then Y[i], which matches any read Y[j])
TAIL_R = (f'forall(i, {N1}, {N1} + {N2}, {{Y}}[i].lb == size({TR}[i - {N1}]) + 1 and {{Y}}[i].ub == size({TR}[i - {N1}]) + 1)')
TAIL_I = (f'forall(i, {N1} + {N2}, {N1} + {N2} + {N3}, {{Y}}[i].lb == size({TI}[i - {N1} - {N2}]) + 1 '
          f'and {{Y}}[i].ub == size({TI}[i - {N1} - {N2}]) + 1)')
REG.contract(
    'FixedLengthSequenceEdit.edits', params=E.params, yields='ref[Edit]', allocates=True,
    ensures=list(E.ensures) + [TAIL_R.format(Y='result'), TAIL_I.format(Y='result')],
    loops={
        0: LoopSpec(index='j', invariant=list(E.loops[0].invariant) + [
            f'forall(i, {N1}, {N1} + j, yielded[i].lb == size({TR}[i - {N1}]) + 1 and yielded[i].ub == size({TR}[i - {N1}]) + 1)']),
        1: LoopSpec(index='j', invariant=list(E.loops[1].invariant) + [
            TAIL_R.format(Y='yielded'),
            f'forall(i, {N1} + {N2}, {N1} + {N2} + j, yielded[i].lb == size({TI}[i - {N1} - {N2}]) + 1 '
            f'and yielded[i].ub == size({TI}[i - {N1} - {N2}]) + 1)']),
    })


def total(field, upto=None):
    """sum of the abstract bound `field` over the first `upto` listed sub-edits (all of them if None)."""
    if upto is None:
        a, b, c = N1, N2, N3
    else:
        a = f'min({upto}, {N1})'
        b = f'max(0, min({upto} - {N1}, {N2}))'
        c = f'max(0, {upto} - {N1} - {N2})'
    return (f'(sumof(k, 0, {a}, {SE}[k].{field}) + sumof(k, 0, {b}, size({TR}[k]) + 1) '
            f'+ sumof(k, 0, {c}, size({TI}[k]) + 1))')


REG.contract(
    'FixedLengthSequenceEdit.bounds', params={'self': 'ref[FixedLengthSequenceEdit]'}, returns='rec[Range]',
    allocates=True,
    requires=[f'forall(i, 0, {N1}, {SE}[i].lb <= {SE}[i].ub)'],
    ensures=[f'result.lower_bound == {total("lb")}', f'result.upper_bound == {total("ub")}'],
    loops={0: LoopSpec(index='j', invariant=[f'lb == {total("lb", "j")}', f'ub == {total("ub", "j")}', 'lb <= ub'])},
    note='C03: the reported range is the sum, over every sub-edit that edits() lists (positional pairs, then one Remove per '
         'surplus source element, then one Insert per surplus target element), of that sub-edit\'s range')
REG.targets = ['sequences.FixedLengthSequenceEdit.edits', 'sequences.FixedLengthSequenceEdit.bounds']
