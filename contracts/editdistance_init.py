"""levenshtein.EditDistance.__init__: prefix / suffix trimming (C01) and establishment of the representation invariant
ed_wf that every other operation of the class requires (C05)."""
from pyvc.spec import Registry, LoopSpec
from .editdistance import REG as ED, EM, M, N

REG = Registry().merged(ED)
REG.fields(sizes_items='list[ref[TreeNode]]')
# during AbstractEdit.__init__ the object is not fully initialised yet (self.__edits is assigned afterwards): bounds() is
# used there under this constructor-time contract, which is itself a verification target below
REG.contract(
    'EditDistance.bounds', params={'self': 'ref[EditDistance]'}, returns='rec[Range]',
    requires=['ed_shape_partial(self)', 'self._fringe_row == -1 and self._fringe_col == 0',
              f'forall(r, 0, {M} + 1, forall(c, 0, {N} + 1, {EM}[r][c] == None))',
              'notnone(self._cost_upper_bound) and self._constant_cost <= self._cost_upper_bound'],
    ensures=['result.lower_bound == self._constant_cost and result.upper_bound == self._cost_upper_bound'],
    note='constructor-time contract: a freshly built, empty matrix; reads neither __edits nor the ghost path')
REG.macro('ed_shape_partial', ['self'],
          f'not isnone({EM}) and len({EM}) == {M} + 1 and forall(r, 0, {M} + 1, len({EM}[r]) == {N} + 1)')
REG.contract('np.full', params={'shape': 'tuple[int,int]', 'fill_value': 'int'}, returns='list[list[int]]', pure=True,
             ensures=['len(result) == shape[0]', 'forall(r, 0, len(result), len(result[r]) == shape[1])',
                      'forall(r, 0, len(result), forall(c, 0, shape[1], result[r][c] == fill_value))'],
             trusted='numpy.full: a rows x cols matrix of the fill value (cells treated as mathematical integers)')
REG.contract('FibonacciHeap.__init__', params={'self': 'ref[FibonacciHeap]', 'key': 'opaque'}, trusted='heap constructor')
REG.contract('FibonacciHeap.push', params={'self': 'ref[FibonacciHeap]', 'item': 'ref[TreeNode]'}, virtual=True, pure=True,
             trusted='heap push (C16); only feeds the constant lower bound')
REG.contract('FibonacciHeap.pop', params={'self': 'ref[FibonacciHeap]'}, returns='ref[TreeNode]', virtual=True, pure=True,
             trusted='heap pop returns one of the pushed nodes (C16); only feeds the constant lower bound')
F, T = 'from_seq', 'to_seq'
SP, RS = 'self.shared_prefix', 'self.reversed_shared_suffix'
PREFIX = (f'forall(i, 0, len({SP}), {SP}[i][0] == {F}[i] and {SP}[i][1] == {T}[i] and eqv({F}[i], {T}[i]))')
SUFFIX = (f'forall(j, 0, len({RS}), {RS}[j][0] == {F}[len({F}) - 1 - j] and {RS}[j][1] == {T}[len({T}) - 1 - j] '
          f'and eqv({F}[len({F}) - 1 - j], {T}[len({T}) - 1 - j]))')
REG.contract(
    'EditDistance.__init__', self_cls='EditDistance', allocates=True,
    params={'self': 'ref[EditDistance]', 'from_node': 'ref[SequenceNode]', 'to_node': 'ref[SequenceNode]',
            'from_seq': 'tupleseq[ref[TreeNode]]', 'to_seq': 'tupleseq[ref[TreeNode]]', 'insert_remove_penalty': 'int'},
    requires=['insert_remove_penalty >= 0'],
    modifies=['penalty@self', 'shared_prefix@self', 'reversed_shared_suffix@self', 'from_seq@self', 'to_seq@self',
              'edit_matrix@self', 'path_costs@self', 'costs@self', '_fringe_row@self', '_fringe_col@self', '_last_fringe@self',
              'from_node@self', 'to_node@self', '_constant_cost@self', '_cost_upper_bound@self', '_valid@self',
              'initial_bounds@self', '_EditDistance__edits@self'],
    ghost_before={
        # the popped nodes are a sub-multiset of the longer sequence, so their total cannot exceed the sum over both
        # sequences; not derivable from the abstract heap contract (explicit assumption, listed in the evidence)
        'super().__init__(': ['assume("constant_cost <= cost_upper_bound and constant_cost >= 0")'],
    },
    ensures=[
        'self.from_node == from_node and self.to_node == to_node and self.penalty == insert_remove_penalty',
        # C01: trimmed prefix / suffix are pairs of equal elements at the same distance from the ends
        PREFIX, SUFFIX,
        f'len({SP}) + len({RS}) <= len({F}) and len({SP}) + len({RS}) <= len({T})',
        f'len(self.from_seq) == len({F}) - len({SP}) - len({RS}) and len(self.to_seq) == len({T}) - len({SP}) - len({RS})',
        f'forall(i, 0, len(self.from_seq), self.from_seq[i] == {F}[len({SP}) + i])',
        f'forall(i, 0, len(self.to_seq), self.to_seq[i] == {T}[len({SP}) + i])',
        # C05: the representation invariant holds for the new object
        'ed_wf(self)', 'isnone(self._EditDistance__edits)', f'not isnone({EM})',
    ],
    loops={
        0: LoopSpec(index='k', modifies=['shared_prefix@self'], invariant=[f'len({SP}) == k', PREFIX]),
        1: LoopSpec(index='k', modifies=['reversed_shared_suffix@self'], invariant=[
            f'len({RS}) == k', SUFFIX, PREFIX, f'len({SP}) <= len({F}) and len({SP}) <= len({T})',
            f'k <= len({F}) - len({SP}) and k <= len({T}) - len({SP})']),
        2: LoopSpec(index='k', invariant=['constant_cost == 0']),
        3: LoopSpec(index='k', invariant=['constant_cost >= 0']),
    })
REG.targets = ['levenshtein.EditDistance.__init__', 'levenshtein.EditDistance.bounds']
