"""__main__.main option slice (C14 aliases / explicit types, C10 option -> BuildOptions mapping) and get_filetype."""
from pyvc.spec import Registry, LoopSpec
from .common import REG as COMMON

REG = Registry().merged(COMMON)
REG.fields(
    # argparse Namespace (destinations read from the add_argument calls of main)
    from_mime='optstrid', to_mime='optstrid', dict_strategy='optstrid', no_key_edits='bool', no_list_edits='bool',
    no_list_edits_when_same_length='bool',
    from_by_type='list[optstrid]', to_by_type='list[optstrid]',     # args.from_<typename> / args.to_<typename>, by registry order
    # BuildOptions
    allow_key_edits='bool', allow_list_edits='bool', allow_list_edits_when_same_length='bool', auto_match_keys='bool',
    check_for_cycles='bool', ignore_cycles='bool',
)
REG.getattr_templates.update({'from_': 'from_by_type', 'to_': 'to_by_type'})
REG.uf('ntypes', 'int')
# graphtage.FILETYPES_BY_TYPENAME.keys(): the registered type names, modelled by their registry index 0..n-1
REG.contract('graphtage.FILETYPES_BY_TYPENAME.keys', params={}, returns='list[int]', pure=True,
             ensures=['len(result) == ntypes()', 'forall(i, 0, len(result), result[i] == i)'],
             trusted='the filetype registry is a dict whose keys are iterated in a fixed order; type names are '
                     'identified with their position')

FIRST = lambda tab, v: (
    f'(isnone({v}) and forall(i, 0, ntypes(), isnone(args.{tab}[i]))) or '
    f'exists(j, 0, ntypes(), notnone(args.{tab}[j]) and {v} == args.{tab}[j] and forall(i, 0, j, isnone(args.{tab}[i])))')
LOOP = lambda tab, v: LoopSpec(index='k', invariant=[
    f'forall(i, 0, k, isnone(args.{tab}[i]))', 'k <= ntypes()'])

REG.contract(
    '__main__.main', params={'args': 'ref[Namespace]'},
    slice_names=['from_mime', 'to_mime', 'allow_key_edits', 'auto_match_keys', 'options'],
    requires=['len(args.from_by_type) == ntypes() and len(args.to_by_type) == ntypes() and ntypes() >= 0'],
    allocates=True,
    ensures=[
        # an explicitly given MIME type for either file is the one used for that file (C14)
        'implies(notnone(args.from_mime), from_mime == args.from_mime)',
        'implies(notnone(args.to_mime), to_mime == args.to_mime)',
        # otherwise the --from-TYPE / --to-TYPE constant of that position
        'implies(isnone(args.from_mime), ' + FIRST('from_by_type', 'from_mime') + ')',
        'implies(isnone(args.to_mime), ' + FIRST('to_by_type', 'to_mime') + ')',
        # dictionary strategy spellings (C10 / C14): none == -k, auto, match
        'implies(args.dict_strategy == "none", not options.allow_key_edits and not options.auto_match_keys)',
        'implies(args.dict_strategy == "auto", options.allow_key_edits and options.auto_match_keys)',
        'implies(args.dict_strategy == "match", options.allow_key_edits and not options.auto_match_keys)',
        'implies(isnone(args.dict_strategy) and args.no_key_edits, not options.allow_key_edits and not options.auto_match_keys)',
        'implies(isnone(args.dict_strategy) and not args.no_key_edits, options.allow_key_edits and options.auto_match_keys)',
        'options.allow_list_edits == (not args.no_list_edits)',
        'options.allow_list_edits_when_same_length == (not args.no_list_edits_when_same_length)',
        'options.check_for_cycles and not options.ignore_cycles',
    ],
    loops={0: LOOP('from_by_type', 'from_mime'), 1: LOOP('to_by_type', 'to_mime')},
    note='def-use slice of main: only the top-level statements assigning from_mime, to_mime, allow_key_edits, '
         'auto_match_keys, options are executed; `args` is a symbolic argparse Namespace')

# get_filetype(path, mime_type): an explicit MIME type decides, whatever the path (C14)
REG.uf('by_mime', 'int', 'int')        # FILETYPES_BY_MIME as a partial map from string ids to Filetype objects: 0 = absent
REG.contract('graphtage.FILETYPES_BY_MIME.__contains__', params={'m': 'optstrid'}, returns='bool', pure=True,
             ensures=['result == (notnone(m) and by_mime(m) != 0)'], trusted='dict membership of the MIME registry')
REG.contract('graphtage.FILETYPES_BY_MIME.__getitem__', params={'m': 'optstrid'}, returns='ref[Filetype]', pure=True,
             requires=['notnone(m) and by_mime(m) != 0'], ensures=['result == by_mime(m)'],
             trusted='dict lookup of the MIME registry')
REG.contract('mimetypes.guess_type', params={'path': 'optstrid'}, returns='tuple[optstrid,optstrid]', pure=True,
             trusted='mimetypes.guess_type: some (type, encoding) pair, possibly (None, None)')
REG.contract(
    'graphtage.get_filetype', params={'path': 'optstrid', 'mime_type': 'optstrid'}, returns='ref[Filetype]',
    raises={'ValueError': None},
    ensures=[
        # an explicitly given type is the one used, regardless of the path
        'implies(notnone(mime_type), result == by_mime(mime_type) and by_mime(mime_type) != 0)',
        'result != None',
    ],
    ensures_raise={},
)
REG.targets = ['__main__.main', 'graphtage.get_filetype']
