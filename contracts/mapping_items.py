"""C18: MappingNode.items yields (pair.key, pair.value) - proved for MappingNode and for the override
FixedKeyDictNode.items; to_obj() of a mapping is built from it."""
from pyvc.spec import Registry, LoopSpec
from .fixedkeydict import REG as FK

REG = Registry().merged(FK)
REG.fields(value='ref[TreeNode]')
S = 'self._children'
REG.contract('MappingNode.items', params={'self': 'ref[MappingNode]'}, yields='tuple[ref[TreeNode],ref[TreeNode]]',
             ensures=['len(result) == len(self.mitems)',
                      'forall(i, 0, len(result), result[i][0] == self.mitems[i][1].key and result[i][1] == self.mitems[i][1].value)'],
             loops={0: LoopSpec(index='i', invariant=[
                 'len(yielded) == i',
                 'forall(k, 0, i, yielded[k][0] == self.mitems[k][1].key and yielded[k][1] == self.mitems[k][1].value)'])})
REG.contract('FixedKeyDictNode.items', params={'self': 'ref[FixedKeyDictNode]'}, yields='tuple[ref[TreeNode],ref[TreeNode]]',
             requires=[f'forall(q, 0, len({S}), {S}[q][1].key == {S}[q][0])'],
             ensures=[f'len(result) == len({S})',
                      # the contract of MappingNode.items, for the insertion-ordered pairs of this class
                      f'forall(i, 0, len(result), result[i][0] == {S}[i][1].key and result[i][1] == {S}[i][1].value)'],
             loops={0: LoopSpec(index='i', invariant=[
                 'len(yielded) == i',
                 f'forall(k, 0, i, yielded[k][0] == {S}[k][1].key and yielded[k][1] == {S}[k][1].value)'])})
REG.targets = ['graphtage.MappingNode.items', 'graphtage.FixedKeyDictNode.items']
