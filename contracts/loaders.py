"""C20: Filetype.build_tree_handling_errors never raises for the exceptions its loader raises on malformed input."""
from pyvc.spec import Registry
from .common import REG as COMMON

REG = Registry().merged(COMMON)
REG.contract('os.path.basename', params={'p': 'opaque'}, returns='opaque', pure=True, trusted='os.path.basename: total')

# Assumed raises-sets of the loaders on syntactically invalid input (from the libraries' documentation; the bounded
# fault enumeration checks them): the loader contracts are ASSUMED, the handlers are verified against them.
RAISES = {
    'JSON': ['JSONDecodeError', 'UnicodeDecodeError'],   # text-mode open(): undecodable bytes raise before json.load parses
    'JSON5': ['ValueError'],
    'YAML': ['YAMLError', 'ReaderError', 'ScannerError', 'ParserError'],
    'XML': ['ParseError'],
    'HTML': ['ParseError'],
    'PLIST': ['ExpatError', 'InvalidFileException', 'ValueError', 'IndexError', 'KeyError', 'AttributeError'],   # AttributeError: plistlib on a malformed <date>
}
for cls, excs in RAISES.items():
    REG.contract(f'{cls}.build_tree', params={'self': f'ref[{cls}]', 'path': 'opaque', 'options': 'opaque'},
                 returns='ref[TreeNode]', allocates=True, may_raise=excs,
                 trusted=f'{cls}.build_tree: on malformed input raises one of {excs} (assumed raises-set of the parser)')
    REG.contract(f'{cls}.build_tree_handling_errors', self_cls=cls,
                 params={'self': f'ref[{cls}]', 'path': 'opaque', 'options': 'opaque'}, allocates=True,
                 raises={}, ensures=[],
                 note='postcondition: returns normally (a tree or a message string) on every path; any uncaught exception '
                      'is a failed no-raise obligation')
REG.targets = [f'{m}.{c}.build_tree_handling_errors' for m, c in
               (('json', 'JSON'), ('json', 'JSON5'), ('yaml', 'YAML'), ('xml', 'XML'), ('plist', 'PLIST'))]
