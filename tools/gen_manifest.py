#!/usr/bin/env python3
"""Regenerates MANIFEST.json from the props/ modules (run with .venv/bin/python from /verif)."""
import importlib, json, os, sys
ROOT = os.path.dirname(os.path.dirname(os.path.abspath(__file__)))
sys.path.insert(0, ROOT)
ids = [json.loads(l)['id'] for l in open(os.path.join(ROOT, 'properties.jsonl'))]
checks, na = [], []
NA_REASONS = {}
try:
    NA_REASONS = json.load(open(os.path.join(ROOT, 'tools', 'not_applicable.json')))
except FileNotFoundError:
    pass
for pid in ids:
    if not os.path.exists(os.path.join(ROOT, 'props', pid + '.py')) or pid in NA_REASONS:
        na.append({'property_id': pid, 'reason': NA_REASONS.get(pid, 'check not built yet in this session (see DESIGN.md section 6 for the plan)')})
        continue
    m = importlib.import_module('props.' + pid)
    checks.append({
        'property_id': pid,
        'quick_cmd': f'./check {pid} --tier quick',
        'thorough_cmd': f'./check {pid} --tier thorough',
        'evidence_file': f'evidence/{pid}.json',
        'replay_cmd_template': f'./check {pid} --replay {{path}}',
        'engine': 'pyvc',
        'level_claimed': {'category': m.LEVEL, 'text': m.EXPLANATION, 'design_ref': f'DESIGN.md section 6 {pid}'},
        'level_note': '; '.join(getattr(m, 'TRUSTED', []) + getattr(m, 'ASSUMPTIONS', [])) or 'see evidence assumptions',
        'technique': getattr(m, 'TECHNIQUE', 'contract-based deductive verification (pyvc: AST->z3 VCs on the real source, sidecar contracts) with replay; bounded stand-in for functions out of reach'),
    })
man = {
    'version': 1,
    'setup_cmd': './setup.sh',
    'hooks': {'guard': 'GRAPHTAGE_VERIF', 'enable': 'no hooks are needed: contracts are sidecar files under /verif/contracts and monitors are installed from /verif at import time',
              'baseline_off_cmd': 'cd /repo && /venv/bin/python -m pytest -ra -q -p no:cacheprovider --timeout=900 --continue-on-collection-errors',
              'source_commits': [], 'add_only': True},
    'engines': [{'name': 'pyvc', 'path': 'pyvc/', 'serves_properties': [c['property_id'] for c in checks],
                 'kind_free_text': 'verification-condition generator over the AST of the real graphtage functions (re-read on every run) against sidecar contracts; z3 5.1.0, cvc5/z3-4.8 for unknowns; replay of counter-models on the real code; bounded stand-ins (run-time contracts + small-scope enumeration) labelled as such'}],
    'checks': checks,
    'not_applicable': na,
    'notes': 'Exit 0 held / 1 VIOLATION / 3 checker crash. UNDECIDED lines are never violations. known_findings.json lists recorded genuine defects and fix: commits.',
}
json.dump(man, open(os.path.join(ROOT, 'MANIFEST.json'), 'w'), indent=1)
print('checks:', [c['property_id'] for c in checks], 'n/a:', len(na))
