#!/bin/sh
# runs every thorough check on /repo (no evidence rewrite), prints rc and wall time
cd /verif
for p in ${@:-C01 C02 C03 C04 C05 C06 C07 C08 C09 C10 C11 C12 C13 C14 C15 C16 C17 C18 C19 C20}; do
  s=$(date +%s)
  ./check $p --tier thorough --no-evidence > /tmp/thorough_$p.log 2>&1; rc=$?
  e=$(date +%s)
  echo "$p rc $rc $((e-s))s viol $(grep -c '^VIOLATION' /tmp/thorough_$p.log) undecided $(grep -c '^UNDECIDED' /tmp/thorough_$p.log) known $(grep -c '^KNOWN-FINDING' /tmp/thorough_$p.log)"
done
