#!/bin/sh
# usage: tools/mut.sh <file-in-graphtage> <sed-expr> <contracts-module> [targets...]   (scratch copy under mktemp)
d=$(mktemp -d /tmp/mutXXXX); cp -r ${SRC:-/repo}/graphtage $d/; f=$1; e=$2; m=$3; shift 3
sed -i "$e" $d/graphtage/$f
if cmp -s $d/graphtage/$f ${SRC:-/repo}/graphtage/$f; then echo "MUTATION DID NOT APPLY: $e"; fi
cd /verif && .venv/bin/python -m pyvc.run --repo $d --budget 8000 $m "$@" 2>&1 | cut -c1-200 | grep -v discharged
rm -rf $d
