#!/usr/bin/env python3
"""Self-test of the checks: small syntactic mutants of the anchored regions of graphtage, each run through the quick check of
the properties anchored there, on a scratch copy (never /repo).  Survivors are candidates for strengthening (or equivalent
mutants); nothing here is part of a registered check.

usage: tools/mutants.py <base tree> <file> <first line> <last line> <ID>[,<ID>...] [--max N] [--bounded-only|--deductive-only]
"""
import ast
import json
import os
import re
import shutil
import subprocess
import sys
import tempfile

OPS = [
    (r'(?<![<>=!])<=(?!=)', '<'), (r'(?<![<>=!-])<(?![<=])', '<='), (r'(?<![<>=!])>=(?!=)', '>'), (r'(?<![<>=!-])>(?![>=])', '>='),
    (r'==', '!='), (r'!=', '=='), (r'\band\b', 'or'), (r'\bor\b', 'and'), (r'\bnot ', ''), (r' \+ 1\b', ''), (r' - 1\b', ''),
    (r' \+ 1\b', ' + 2'), (r'\bTrue\b', 'False'), (r'\bFalse\b', 'True'), (r'\bmin\(', 'max('), (r'\bmax\(', 'min('),
    (r'\bis not None\b', 'is None'), (r'\bis None\b', 'is not None'), (r'\.lower_bound\b', '.upper_bound'),
    (r'\.upper_bound\b', '.lower_bound'), (r'\bfrom_node\b', 'to_node'), (r'\bto_node\b', 'from_node'), (r'\b0\b', '1'),
    (r'\b1\b', '0'), (r'\+=', '-='), (r'\brow\b', 'col'), (r'\bcol\b', 'row'), (r'\bcontinue\b', 'break'), (r'\bbreak\b', 'continue'),
]


def docstring_lines(text):
    skip = set()
    for node in ast.walk(ast.parse(text)):
        if isinstance(node, (ast.FunctionDef, ast.ClassDef, ast.Module, ast.AsyncFunctionDef)) and node.body and \
                isinstance(node.body[0], ast.Expr) and isinstance(getattr(node.body[0], 'value', None), ast.Constant) and \
                isinstance(node.body[0].value.value, str):
            skip.update(range(node.body[0].lineno, node.body[0].end_lineno + 1))
    return skip


def mutants(src_lines, lo, hi):
    skip = docstring_lines(''.join(src_lines))
    for ln in range(lo - 1, hi):
        if ln + 1 in skip:
            continue
        line = src_lines[ln]
        code = line.split('#')[0]
        if not code.strip() or code.strip().startswith(('"""', "'''", 'def ', 'class ', '@', 'import ', 'from ')):
            continue
        for pat, rep in OPS:
            for m in re.finditer(pat, code):
                new = line[:m.start()] + rep + line[m.end():]
                if new != line:
                    yield ln, f"L{ln + 1}: {pat} -> {rep!r} @{m.start()}", new
        # statement deletion (simple statements only)
        st = code.strip()
        if not st.endswith(':') and not st.startswith(('return', 'yield', 'raise', 'else', 'elif', 'except', 'finally', ')', ']', '}')) \
                and st.count('(') == st.count(')'):
            indent = line[:len(line) - len(line.lstrip())]
            yield ln, f"L{ln + 1}: delete statement", indent + 'pass\n'


def main():
    base, rel, lo, hi, ids = sys.argv[1], sys.argv[2], int(sys.argv[3]), int(sys.argv[4]), sys.argv[5].split(',')
    extra = [a for a in sys.argv[6:] if a.startswith('--no-')]
    mx = 10 ** 9
    if '--max' in sys.argv:
        mx = int(sys.argv[sys.argv.index('--max') + 1])
    src = open(os.path.join(base, rel)).read().splitlines(keepends=True)
    out = []
    seen = set()
    n = 0
    work = tempfile.mkdtemp(prefix='mutrun_')
    try:
        shutil.copytree(os.path.join(base, 'graphtage'), os.path.join(work, 'graphtage'))
        target = os.path.join(work, rel)
        for ln, desc, new in mutants(src, lo, hi):
            key = (ln, new)
            if key in seen:
                continue
            seen.add(key)
            m = list(src)
            m[ln] = new
            text = ''.join(m)
            try:
                ast.parse(text)
            except SyntaxError:
                continue
            if n >= mx:
                break
            n += 1
            open(target, 'w').write(text)
            imp = subprocess.run(['/venv/bin/python', '-c', 'import graphtage, graphtage.__main__'], cwd=work,
                                 env={**os.environ, 'PYTHONPATH': work}, capture_output=True, text=True, timeout=120)
            if imp.returncode != 0:
                out.append({'mutant': desc, 'result': 'import-fails'})
                print(desc, '-> import fails', flush=True)
                continue
            res = {}
            for pid in ids:
                try:
                    r = subprocess.run(['./check', pid, '--tier', 'quick', '--no-evidence', '--repo', work] + extra, cwd='/verif',
                                       capture_output=True, text=True, timeout=1500)
                    und = r.stdout.count('UNDECIDED')
                    res[pid] = {'rc': r.returncode, 'violations': r.stdout.count('\nVIOLATION') + r.stdout.startswith('VIOLATION'),
                                'undecided': und}
                except subprocess.TimeoutExpired:
                    res[pid] = {'rc': 'timeout'}
            caught = any(v['rc'] == 1 for v in res.values())
            verdict = 'caught' if caught else ('CRASH' if any(v['rc'] not in (0, 1) for v in res.values()) else 'SURVIVED')
            out.append({'mutant': desc, 'line': src[ln].rstrip(), 'new': new.rstrip(), 'result': verdict, 'checks': res})
            print(desc, '->', verdict, {k: v['rc'] for k, v in res.items()}, flush=True)
        open(target, 'w').write(''.join(src))
    finally:
        shutil.rmtree(work, ignore_errors=True)
    json.dump(out, sys.stdout if '--json' in sys.argv else open(os.devnull, 'w'), indent=1)
    surv = [o for o in out if o['result'] in ('SURVIVED', 'CRASH')]
    print(f"\n{len(out)} mutants, {sum(1 for o in out if o['result'] == 'caught')} caught, {len(surv)} survived, "
          f"{sum(1 for o in out if o['result'] == 'import-fails')} fail to import")
    for o in surv:
        print(o['result'], o['mutant'], '|', o['line'].strip(), '=>', o['new'].strip())


if __name__ == '__main__':
    main()
