#!/bin/sh
# runs every claimed check (quick tier) and prints exit status, wall time, level and obligation counts
cd "$(dirname "$0")/.."
for p in $(python3 -c "import json;print(' '.join(c['property_id'] for c in json.load(open('MANIFEST.json'))['checks']))"); do
  s=$(date +%s); ./check $p --tier ${1:-quick} > /tmp/runall_$p.log 2>&1; rc=$?; e=$(date +%s)
  python3 - "$p" "$rc" "$((e-s))" <<'PY'
import json,sys
p,rc,t=sys.argv[1:4]
try:
    e=json.load(open(f'evidence/{p}.json')); c=e['coverage']
    print(p, 'rc',rc, f'{t}s', e['level'], f"obl {c['discharged']}/{c['obligations']}", 'oor', len(c['functions_out_of_reach']), 'und', len(c['undecided']), 'evals', c['evaluations'], 'viol', e['violations'])
except Exception as ex:
    print(p, 'rc', rc, t, 'NO EVIDENCE', ex)
PY
done
