#!/bin/sh
# tools/seed_eval.sh <ID> [extra check ids...] : confirm a sub-agent's change in its worktree, store it under seeded/, run checks on /repo with it applied
ID=$1; shift
if [ "${ROUND:-1}" = "1" ]; then WT=/tmp/seed_$ID; OUT=/verif/seeded/$ID; else WT=/tmp/seed${ROUND}_$ID; OUT=/verif/seeded/$ID-r$ROUND; fi
mkdir -p $OUT
git -C $WT diff > $OUT/patch.diff
cp $WT/demo_$ID.py $OUT/demo.py 2>/dev/null
cd $WT
PYTHONPATH=$WT /venv/bin/python demo_$ID.py > $OUT/demo_changed.log 2>&1; RC_CHANGED=$?
git apply -R $OUT/patch.diff     # (not git stash: refs/stash is shared by all worktrees)
PYTHONPATH=$WT /venv/bin/python demo_$ID.py > $OUT/demo_original.log 2>&1; RC_ORIG=$?
git apply $OUT/patch.diff
PYTHONPATH=$WT timeout 1500 /venv/bin/python -m pytest -q -p no:cacheprovider --timeout=900 test > $OUT/tests_changed.log 2>&1; RC_TESTS=$?
TESTS=$(tail -1 $OUT/tests_changed.log)
echo "demo changed rc=$RC_CHANGED original rc=$RC_ORIG tests rc=$RC_TESTS: $TESTS"
cd /verif
git -C /repo apply $OUT/patch.diff || { echo "patch does not apply to /repo"; exit 2; }
RES=""
for P in $ID "$@"; do
  ./check $P --tier quick --no-evidence > $OUT/check_$P.log 2>&1; RC=$?
  V=$(grep -c '^VIOLATION' $OUT/check_$P.log)
  RES="$RES $P:rc=$RC,violations=$V"
done
git -C /repo checkout -- .
echo "checks:$RES"
echo "{\"demo_changed_rc\": $RC_CHANGED, \"demo_original_rc\": $RC_ORIG, \"tests_rc\": $RC_TESTS, \"tests\": \"$TESTS\", \"checks\": \"$RES\"}" > $OUT/run.json
