#!/bin/sh
# tools/seed_recheck.sh <seeded dir name, e.g. C04-r2> [check ids...] : re-run the checks on /repo with a stored seeded patch applied (after strengthening)
D=$1; shift
OUT=/verif/seeded/$D
ID=$(echo $D | cut -c1-3)
[ $# -eq 0 ] && set -- $ID
cd /verif
git -C /repo status --short | grep -q . && { echo "/repo not clean"; exit 2; }
git -C /repo apply $OUT/patch.diff || { echo "patch does not apply"; exit 2; }
RES=""
for P in "$@"; do
  ./check $P --tier quick --no-evidence > $OUT/check_$P.log 2>&1; RC=$?
  V=$(grep -c '^VIOLATION' $OUT/check_$P.log)
  RES="$RES $P:rc=$RC,violations=$V"
done
git -C /repo checkout -- .
echo "recheck $D:$RES"
python3 - "$OUT" "$RES" <<'PY'
import json,sys
p=sys.argv[1]+'/run.json'; r=json.load(open(p)); r['checks_after_strengthening']=sys.argv[2].strip(); json.dump(r,open(p,'w'))
PY
