#!/bin/sh
# Builds /verif/.venv offline: python 3.12 venv overlaying /venv (graphtage + deps) plus z3-solver etc.
set -e
cd "$(dirname "$0")"
export PIP_NO_INDEX=1
if [ -x .venv/bin/python ] && .venv/bin/python -c "import z3, graphtage, jsonschema" 2>/dev/null; then
    echo "setup: .venv already usable"; exit 0
fi
rm -rf .venv
/venv/bin/python -m venv .venv
echo "import site; site.addsitedir('/venv/lib/python3.12/site-packages')" > .venv/lib/python3.12/site-packages/_overlay.pth
.venv/bin/pip install -q --no-index --find-links /opt/veriftools/wheels z3-solver jsonschema crosshair-tool deal icontract
.venv/bin/python -c "import z3, graphtage, jsonschema; print('setup: ok, z3', z3.get_version_string(), 'graphtage', graphtage.__file__)"
