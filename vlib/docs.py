"""Small-scope document enumeration for the bounded stand-ins."""
import itertools
import json
import random

ATOMS = [0, 1, 12, "", "a", "ab", None, True]
KEYS = ["a", "b", "c"]


def enum_docs(max_nodes, atoms=None, keys=None, max_width=3):
    """All JSON-like documents with at most max_nodes nodes (every scalar, list, dict counts 1)."""
    atoms = ATOMS if atoms is None else atoms
    keys = KEYS if keys is None else keys
    memo = {}

    def docs(n):  # exactly n nodes
        if n in memo:
            return memo[n]
        res = []
        if n == 1:
            res = list(atoms) + [[], {}]
        elif n > 1:
            # lists
            for w in range(1, min(max_width, n - 1) + 1):
                for parts in compositions(n - 1, w):
                    for combo in itertools.product(*[docs(p) for p in parts]):
                        res.append(list(combo))
            # dicts (keys in canonical order, distinct)
            for w in range(1, min(max_width, len(keys), n - 1) + 1):
                for ks in itertools.combinations(keys, w):
                    for parts in compositions(n - 1, w):
                        for combo in itertools.product(*[docs(p) for p in parts]):
                            res.append(dict(zip(ks, combo)))
        memo[n] = res
        return res

    out = []
    for n in range(1, max_nodes + 1):
        out.extend(docs(n))
    return out


def compositions(total, parts):
    if parts == 1:
        if total >= 1:
            yield (total,)
        return
    for first in range(1, total - parts + 2):
        for rest in compositions(total - first, parts - 1):
            yield (first,) + rest


def key(doc):
    return json.dumps(doc, sort_keys=False, default=repr) + '|' + type_sig(doc)


def type_sig(doc):
    if isinstance(doc, list):
        return '[' + ','.join(type_sig(d) for d in doc) + ']'
    if isinstance(doc, dict):
        return '{' + ','.join(type_sig(d) for d in doc.values()) + '}'
    return type(doc).__name__[0]


def data_equal(a, b):
    """Equality 'as data' for C02: same kind at every position; ints as ints, bool is not int; mapping order ignored."""
    if type(a) is not type(b):
        return False
    if isinstance(a, list):
        return len(a) == len(b) and all(data_equal(x, y) for x, y in zip(a, b))
    if isinstance(a, dict):
        return a.keys() == b.keys() and all(data_equal(a[k], b[k]) for k in a)
    return a == b


def sample_pairs(docs, budget, seed, neighbours=True):
    """All pairs if they fit the budget (exhaustive=True) else a seeded sample that always includes (d,d) and
    structurally close pairs."""
    n = len(docs)
    if n * n <= budget:
        return [(a, b) for a in docs for b in docs], True
    rnd = random.Random(seed)
    pairs = [(d, d) for d in docs[:max(1, budget // 10)]]
    while len(pairs) < budget:
        pairs.append((docs[rnd.randrange(n)], docs[rnd.randrange(n)]))
    return pairs, False


def chunks(seq, n):
    k = max(1, (len(seq) + n - 1) // n)
    return [seq[i:i + k] for i in range(0, len(seq), k)]


# Distinct values of the same type with EQUAL Python hashes (CPython: hash(-1) == hash(-2) == -2; int hashes are taken modulo
# 2**61 - 1; float hashes agree with the equal int): code that decides equality by a cached hash confuses exactly these.
HASH_TWINS = [(-1, -2), (0, 2 ** 61 - 1), (1, 2 ** 61), (-1.0, -2.0), (7, 7 + 2 ** 61 - 1)]


def hash_collision_pairs():
    """Pairs of documents that differ only in hash-colliding scalars, in every kind of position."""
    out = []
    for x, y in HASH_TWINS:
        assert hash(x) == hash(y) and x != y
        shapes = [lambda v: [v], lambda v: {"k": v}, lambda v: [v, "a", 5], lambda v: {"a": {"b": v}, "c": 1}, lambda v: [[v], [v, 1]],
                  lambda v: {"name": "x", "offset": v}, lambda v: ["p", v, "s"], lambda v: [{"id": v}, {"id": 3}], lambda v: v]
        for sh in shapes:
            out.append((sh(x), sh(y)))
            out.append((sh(y), sh(x)))
        out.append(([x, y], [y, x]))
        out.append(({"a": x, "b": y}, {"a": y, "b": x}))
    return out
