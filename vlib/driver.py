"""Common driver behind ./check: deductive obligations (pyvc) + replay + bounded stand-ins + findings + evidence."""
import argparse
import hashlib
import importlib
import json
import os
import sys
import time
import traceback

ROOT = os.path.dirname(os.path.dirname(os.path.abspath(__file__)))
sys.path.insert(0, ROOT)

from vlib.deductive import run_targets  # noqa: E402

GLOBAL_ASSUMPTIONS = [
    "pyvc: the VC generator and its stated Python semantics (DESIGN 2.3) are trusted; z3 5.1.0 (cvc5 1.0.3 / z3 4.8.12 for unknowns)",
    "ints are mathematical (true for Python int; numpy uint16/uint64 cells of EditDistance are treated as mathematical)",
    "lists are modelled as values: mutation through one alias is not visible through another (the executor rejects "
    "syntactically visible aliasing of a mutated list)",
    "extraction drops docstrings, annotations, log.* calls and progress-bar (tqdm) plumbing",
    "CPython 3.12.1 as installed",
]


def load_findings():
    p = os.path.join(ROOT, 'known_findings.json')
    if not os.path.exists(p):
        return {'findings': [], 'fixed': []}
    with open(p) as f:
        return json.load(f)


def match_finding(findings, prop, kind, key):
    """kind: 'class' (failing-input class) or 'obligation' (obligation name)."""
    if kind == 'class' and key and '+' in key:
        # a failure explained by several listed defects at once is known only if every component is listed
        parts = [match_finding(findings, prop, kind, k) for k in key.split('+')]
        return parts[0] if all(parts) else None
    for f in findings.get('findings', []):
        if f['property'] != prop:
            continue
        if f['kind'] == kind and f['match'] == key:
            return f
    return None


class Reporter:
    def __init__(self, prop, tier, seed):
        self.prop, self.tier, self.seed = prop, tier, seed
        self.violations = []
        self.known = {}
        self.undecided = []
        self.lines = []
        os.makedirs(os.path.join(ROOT, 'replays'), exist_ok=True)
        self.n = 0

    def violation(self, entry, no_input=False):
        self.n += 1
        blob = json.dumps(entry, default=str)       # (no sort_keys: documents may have mixed-type keys)
        h = hashlib.sha256(blob.encode()).hexdigest()[:10]
        path = os.path.join('replays', f"{self.prop}-{h}.json")
        entry = dict(entry)
        entry['property'] = self.prop
        with open(os.path.join(ROOT, path), 'w') as f:
            json.dump(entry, f, indent=1, default=str)
        line = f"VIOLATION property={self.prop} replay={path}"
        if no_input:
            line += " no-failing-input-found"
        self.violations.append(entry)
        print(line, flush=True)
        what = entry.get('what') or entry.get('obligation') or ''
        print(f"  detail: {str(what)[:300]}", flush=True)

    def known_finding(self, f, example=None):
        k = (f['kind'], f['match'])
        if k not in self.known:
            self.known[k] = {'finding': f, 'count': 0, 'example': example}
        self.known[k]['count'] += 1

    def flush_known(self):
        for k, d in self.known.items():
            f = d['finding']
            print(f"KNOWN-FINDING: property={self.prop} {f['what']} [{f['kind']}={f['match']}; seen {d['count']}x]",
                  flush=True)


def main(argv=None):
    ap = argparse.ArgumentParser()
    ap.add_argument('prop')
    ap.add_argument('--tier', default=os.environ.get('VERIF_TIER', 'quick'), choices=['quick', 'thorough'])
    ap.add_argument('--seed', type=int, default=int(os.environ.get('VERIF_SEED', '0')))
    ap.add_argument('--repo', default=os.environ.get('VERIF_REPO', '/repo'))
    ap.add_argument('--replay', default=None)
    ap.add_argument('--no-bounded', action='store_true')
    ap.add_argument('--no-deductive', action='store_true')
    ap.add_argument('--no-evidence', action='store_true')
    a = ap.parse_args(argv)
    t0 = time.time()
    repo_root = os.path.abspath(a.repo)
    # the tree under check takes precedence over the editable install
    sys.path.insert(0, repo_root)
    os.environ['PYTHONPATH'] = repo_root + os.pathsep + os.environ.get('PYTHONPATH', '')
    os.environ['VERIF_REPO'] = repo_root
    try:
        prop = importlib.import_module(f"props.{a.prop}")
    except ModuleNotFoundError:
        print(f"no check module for {a.prop}", file=sys.stderr)
        return 3
    if a.replay:
        with open(a.replay if os.path.isabs(a.replay) else os.path.join(ROOT, a.replay)) as f:
            entry = json.load(f)
        still = prop.replay(entry, repo_root)
        if still:
            print(f"VIOLATION property={a.prop} replay={a.replay}")
            print(f"  detail: {still}")
            return 1
        print(f"replay: input no longer violates {a.prop}")
        return 0
    findings = load_findings()
    rep = Reporter(a.prop, a.tier, a.seed)
    crash = False
    deferred = []
    # ------------------------------------------------------------------ deductive part
    budget = 20000 if a.tier == 'quick' else 60000
    targets = [] if a.no_deductive else list(getattr(prop, 'TARGETS', []))
    ded = run_targets(targets, repo_root, budget_ms=budget)
    n_obl = n_dis = 0
    solver_ms = 0.0
    ob_table = []
    out_of_reach = []
    known_refuted = []
    for fr in ded:
        if fr['status'] == 'crash':
            print(f"CHECKER-CRASH function={fr['function']}: {fr['reason']}", file=sys.stderr)
            crash = True
            continue
        if fr['status'] in ('out_of_reach', 'unbound'):
            out_of_reach.append({'function': fr['function'], 'status': fr['status'], 'reason': fr['reason']})
            print(f"UNDECIDED property={a.prop} function={fr['function']} ({fr['status']}: {fr['reason'][:200]})")
            rep.undecided.append(fr['function'])
            # the function's runtime contract (witness search) still runs below
            ws = prop.witnesses(fr, None, repo_root, a.tier) if hasattr(prop, 'witnesses') else []
            for w in ws:
                f = match_finding(findings, a.prop, 'class', w.get('class'))
                if f:
                    rep.known_finding(f, w)
                else:
                    rep.violation({'function': fr['function'], 'obligation': None, 'input': w.get('input'),
                                   'what': w.get('what'), 'class': w.get('class'), 'replay': w.get('replay')})
            continue
        if not fr['obligations']:
            print(f"CHECKER-CRASH function={fr['function']}: zero obligations generated", file=sys.stderr)
            crash = True
            continue
        if fr.get('cover_return_reachable') is False and not any(
                o['verdict'] == 'refuted' and o['kind'] == 'no-raise' for o in fr['obligations']):
            print(f"CHECKER-CRASH function={fr['function']}: vacuous (no reachable normal exit under the precondition)",
                  file=sys.stderr)
            crash = True
        for ob in fr['obligations']:
            n_obl += 1
            solver_ms += ob['ms']
            row = {'obligation': ob['name'], 'function': fr['function'], 'source_sha': fr['source_sha'],
                   'verdict': ob['verdict'], 'backend': '+'.join(ob['backends']), 'ms': ob['ms'],
                   'instances': ob['instances']}
            ob_table.append(row)
            if ob['verdict'] == 'discharged':
                n_dis += 1
                continue
            ws = []
            if hasattr(prop, 'witnesses'):
                try:
                    ws = prop.witnesses(fr, ob, repo_root, a.tier)
                except Exception as e:
                    print(f"CHECKER-CRASH witness search for {ob['name']}: {e!r}\n{traceback.format_exc()}", file=sys.stderr)
                    crash = True
            if ws:
                unknown_ws = []
                for w in ws:
                    f = match_finding(findings, a.prop, 'class', w.get('class'))
                    if f:
                        rep.known_finding(f, w)
                        row['known_finding'] = f['match']
                    else:
                        unknown_ws.append(w)
                if unknown_ws:
                    w = unknown_ws[0]
                    rep.violation({'function': fr['function'], 'obligation': ob['name'], 'verdict': ob['verdict'],
                                   'solver_model': ob.get('model'), 'input': w.get('input'), 'what': w.get('what'),
                                   'class': w.get('class'), 'replay': w.get('replay'), 'info': ob['info'],
                                   'line': ob['line'], 'other_failing_inputs': len(unknown_ws) - 1})
                else:
                    known_refuted.append(ob['name'])
            elif ob['verdict'] == 'refuted':
                f = match_finding(findings, a.prop, 'obligation', ob['name'])
                if f:
                    rep.known_finding(f)
                    row['known_finding'] = f['match']
                    known_refuted.append(ob['name'])
                else:
                    # no concrete input from the function's own witness search: wait for the bounded stand-in, whose
                    # failing inputs (if any) are attached as the replay of this obligation
                    deferred.append({'function': fr['function'], 'obligation': ob['name'], 'verdict': 'refuted',
                                     'solver_model': ob.get('model'), 'info': ob['info'], 'line': ob['line'],
                                     'what': f"obligation {ob['name']} refuted by {row['backend']}: {ob['info']}",
                                     'replay': None})
            else:
                f = match_finding(findings, a.prop, 'obligation', ob['name'])
                if f:
                    rep.known_finding(f)
                    known_refuted.append(ob['name'])
                else:
                    print(f"UNDECIDED property={a.prop} obligation={ob['name']} ({row['backend']}, {ob['ms']}ms)")
                    rep.undecided.append(ob['name'])
    # ------------------------------------------------------------------ bounded stand-ins
    standins = []
    if hasattr(prop, 'bounded') and not a.no_bounded:
        try:
            standins = prop.bounded(a.tier, a.seed, repo_root) or []
        except Exception as e:
            print(f"CHECKER-CRASH bounded stand-in: {e!r}\n{traceback.format_exc()}", file=sys.stderr)
            crash = True
        for st in standins:
            unknown = []
            for w in st.get('failures', []):
                f = match_finding(findings, a.prop, 'class', w.get('class'))
                if f:
                    rep.known_finding(f, w)
                else:
                    unknown.append(w)
            # one VIOLATION per distinct failure class
            seen = set()
            for w in unknown:
                if w.get('class') in seen:
                    continue
                seen.add(w.get('class'))
                rep.violation({'standin': st['name'], 'input': w.get('input'), 'what': w.get('what'),
                               'class': w.get('class'), 'replay': w.get('replay'),
                               'same_class_failures': sum(1 for x in unknown if x.get('class') == w.get('class'))})
            if unknown and deferred:
                w = unknown[0]
                for dv in deferred:
                    dv = dict(dv)
                    dv.update({'input': w.get('input'), 'replay': w.get('replay'), 'class': w.get('class'),
                               'witness_from': f"bounded stand-in {st['name']}",
                               'what': dv['what'] + ' | failing input from the bounded stand-in: ' + str(w.get('what'))[:300]})
                    rep.violation(dv)
                deferred = []
            st['failures_unlisted'] = len(unknown)
            st['failures_known'] = len(st.get('failures', [])) - len(unknown)
            st['failures'] = st.get('failures', [])[:5]
    for dv in deferred:
        rep.violation(dv, no_input=True)
    rep.flush_known()
    wall = time.time() - t0
    # ------------------------------------------------------------------ evidence
    if not a.no_evidence:
        write_evidence(a, prop, ded, ob_table, n_obl, n_dis, solver_ms, out_of_reach, known_refuted, standins, rep, wall,
                       repo_root)
    if crash:
        return 3
    return 1 if rep.violations else 0


def write_evidence(a, prop, ded, ob_table, n_obl, n_dis, solver_ms, out_of_reach, known_refuted, standins, rep, wall,
                   repo_root):
    level = getattr(prop, 'LEVEL', 'other')
    evals = sum(s.get('evaluations', 0) for s in standins)
    distinct = sum(s.get('distinct_nontrivial', 0) for s in standins)
    samples = []
    for row in ob_table[:3]:
        samples.append({'obligation': row['obligation'], 'verdict': row['verdict']})
    for s in standins:
        samples.extend(s.get('samples', [])[:3])
    if level == 'proof' and (n_obl == 0 or n_dis != n_obl):
        level = 'other'
    cov = {
        'obligations': n_obl,
        'discharged': n_dis,
        'checker_cmd': f"./check {a.prop} --tier {a.tier}  (pyvc: AST of {repo_root}/graphtage/*.py -> VCs -> z3)",
        'trusted_base': list(getattr(prop, 'TRUSTED', [])),
        'functions_under_contract': [
            {'function': f['function'], 'contract_module': f.get('contract_module'), 'status': f['status'],
             'file': f.get('file'), 'lines': f.get('lines'), 'source_sha': f.get('source_sha'), 'paths': f.get('paths'),
             'obligations': len(f.get('obligations', [])),
             'discharged': sum(1 for o in f.get('obligations', []) if o['verdict'] == 'discharged'),
             'wall_s': f.get('wall_s'), 'reason': f.get('reason') or None} for f in ded],
        'functions_out_of_reach': out_of_reach,
        'obligation_table': ob_table,
        'solver_ms_total': round(solver_ms, 1),
        'known_refuted_obligations': known_refuted,
        'undecided': rep.undecided,
        'bounded_standins': [{k: v for k, v in s.items() if k != 'samples'} for s in standins],
        'evaluations': evals,
        'distinct_nontrivial': distinct,
        'rule': '; '.join(s.get('rule', '') for s in standins) or 'no bounded stand-in in this run',
        'samples': samples or [{'note': 'no samples'}],
        'exhaustive': bool(standins) and all(s.get('exhaustive') for s in standins),
        'explanation': getattr(prop, 'EXPLANATION', ''),
        'known_findings_seen': [{'match': k[1], 'kind': k[0], 'count': d['count']} for k, d in rep.known.items()],
    }
    ev = {
        'property_id': a.prop, 'tier': a.tier, 'seed': a.seed, 'level': level, 'coverage': cov,
        'assumptions': GLOBAL_ASSUMPTIONS + list(getattr(prop, 'ASSUMPTIONS', [])),
        'wall_s': round(wall, 2), 'violations': len(rep.violations),
    }
    os.makedirs(os.path.join(ROOT, 'evidence'), exist_ok=True)
    with open(os.path.join(ROOT, 'evidence', f"{a.prop}.json"), 'w') as f:
        json.dump(ev, f, indent=1, default=str)


def _main_guarded():
    try:
        return main()
    except SystemExit:
        raise
    except BaseException:      # a crash of the machinery must never look like a violation (exit 1)
        traceback.print_exc()
        print("CHECKER-CRASH: uncaught exception in the check driver", file=sys.stderr)
        return 3


if __name__ == '__main__':
    sys.exit(_main_guarded())
