"""Fork-based parallel map for the bounded stand-ins (workers import graphtage from the tree under check)."""
import multiprocessing as mp
import os
import sys


def _init(repo_root):
    sys.path.insert(0, repo_root)
    devnull = open(os.devnull, 'w')
    sys.stderr = devnull
    try:
        os.dup2(devnull.fileno(), 2)
    except Exception:
        pass
    # import the code under check BEFORE any per-job alarm can fire: an alarm that interrupts an import leaves half-initialised
    # modules behind and every later import in that worker fails (seen once on a loaded machine: checker crash, exit 3)
    import importlib
    for m in ('graphtage', 'graphtage.expressions', 'graphtage.constraints', 'graphtage.pydiff', 'graphtage.fibonacci',
              'graphtage.matching', 'graphtage.search', 'graphtage.levenshtein', 'graphtage.bounds', 'graphtage.builder',
              'graphtage.__main__', 'yaml', 'numpy'):
        try:
            importlib.import_module(m)
        except BaseException:
            pass        # (a tree that does not import is reported by the jobs themselves)


class _Timed:
    """Picklable wrapper: fn(job) under a per-job wall-clock budget; a job that does not finish yields on_timeout(job, s)."""
    def __init__(self, fn, seconds, on_timeout):
        self.fn, self.seconds, self.on_timeout = fn, seconds, on_timeout

    def __call__(self, job):
        try:
            return with_timeout(self.fn, job, self.seconds)
        except JobTimeout:
            return self.on_timeout(job, self.seconds)


class _SkipGuard:
    """Picklable wrapper: a job that is skipped because the timeout cap of this map was reached yields skip_result
    (an empty result: skipped jobs are neither failures nor evaluations)."""
    def __init__(self, fn, skip_result):
        self.fn, self.skip_result = fn, skip_result

    def __call__(self, job):
        try:
            return self.fn(job)
        except JobSkipped:
            return self.skip_result


def pmap(fn, items, repo_root, workers=16, chunksize=None, job_timeout=None, on_timeout=None, skip_result=(), fresh=False):
    """job_timeout / on_timeout: every job runs under its own alarm, so a hang of the code under check ends as a reported
    failure of that job (never as a check that has to be killed).  After TIMEOUT_CAP counted timeouts the remaining jobs of
    this map are skipped (skip_result; default: an empty list of failures).  fresh=True: every job runs in a worker process
    of its own, forked from the driver (which never imports the code under check): no state left by an earlier job."""
    if not items:
        return []
    if job_timeout is not None:
        fn = _Timed(fn, job_timeout, on_timeout)
    fn = _SkipGuard(fn, list(skip_result) if skip_result == () else skip_result)
    workers = min(workers, len(items))
    ctx = mp.get_context('fork')
    global _timeouts
    _timeouts = ctx.Value('i', 0)       # shared by the forked workers of this map
    if fresh:
        with ctx.Pool(workers, initializer=_init, initargs=(repo_root,), maxtasksperchild=1) as pool:
            return pool.map(fn, items, chunksize=1)
    with ctx.Pool(workers, initializer=_init, initargs=(repo_root,)) as pool:
        return pool.map(fn, items, chunksize=chunksize or max(1, len(items) // (workers * 4)))


def timeout_failure(prop, describe=repr, replay=None):
    """Standard on_timeout for jobs that return a list of failure dicts."""
    return _TimeoutFailure(prop, describe, replay)


class _TimeoutFailure:
    def __init__(self, prop, describe, replay):
        self.prop, self.describe, self.replay = prop, describe, replay

    def __call__(self, job, seconds):
        d = self.describe(job)
        return [{'what': f"no result within {seconds}s (the code under check did not terminate) for {d[:300]}",
                 'class': f"{self.prop.lower()}-timeout", 'input': {'job': d[:2000]},
                 'replay': self.replay(job) if self.replay else None}]


class JobTimeout(BaseException):
    pass


class JobSkipped(BaseException):
    pass


# Once this many jobs of one map have hit their alarm, the remaining jobs give up at once (the non-termination is already
# established; without the cap a change that makes EVERY job hang would cost jobs x budget).
TIMEOUT_CAP = 6
_timeouts = None


def with_timeout(fn, arg, seconds, count=True):
    """Run fn(arg) under a wall-clock alarm (worker processes only); raises JobTimeout.  count=False: an expected
    timeout (an input of a listed finding) that must not use up the cap of the map."""
    import signal
    if _timeouts is not None and _timeouts.value >= TIMEOUT_CAP:
        raise JobSkipped()
    fired = []

    def handler(signum, frame):
        if count and not fired and _timeouts is not None:
            with _timeouts.get_lock():
                _timeouts.value += 1
        fired.append(1)
        raise JobTimeout()
    old = signal.signal(signal.SIGALRM, handler)
    signal.setitimer(signal.ITIMER_REAL, seconds, 1.0)     # re-fires every second in case it is swallowed
    try:
        return fn(arg)
    finally:
        signal.setitimer(signal.ITIMER_REAL, 0)
        signal.signal(signal.SIGALRM, old)
