"""Fork-based parallel map for the bounded stand-ins (workers import graphtage from the tree under check)."""
import multiprocessing as mp
import os
import sys


def _init(repo_root):
    sys.path.insert(0, repo_root)
    devnull = open(os.devnull, 'w')
    sys.stderr = devnull
    try:
        os.dup2(devnull.fileno(), 2)
    except Exception:
        pass


def pmap(fn, items, repo_root, workers=16, chunksize=None):
    if not items:
        return []
    workers = min(workers, len(items))
    ctx = mp.get_context('fork')
    with ctx.Pool(workers, initializer=_init, initargs=(repo_root,)) as pool:
        return pool.map(fn, items, chunksize=chunksize or max(1, len(items) // (workers * 4)))


class JobTimeout(BaseException):
    pass


def with_timeout(fn, arg, seconds):
    """Run fn(arg) under a wall-clock alarm (worker processes only); raises JobTimeout."""
    import signal

    def handler(signum, frame):
        raise JobTimeout()
    old = signal.signal(signal.SIGALRM, handler)
    signal.setitimer(signal.ITIMER_REAL, seconds, 1.0)     # re-fires every second in case it is swallowed
    try:
        return fn(arg)
    finally:
        signal.setitimer(signal.ITIMER_REAL, 0)
        signal.signal(signal.SIGALRM, old)
