"""Runs pyvc on a list of (contract module, function) targets in a process pool and returns JSON-able results."""
import os
import sys
import time
import traceback
from concurrent.futures import ProcessPoolExecutor, as_completed

ROOT = os.path.dirname(os.path.dirname(os.path.abspath(__file__)))


def _one(args):
    module, qualname, repo_root, budget_ms = args
    sys.path.insert(0, ROOT)
    t0 = time.time()
    try:
        import contracts
        from pyvc.source import Repo
        from pyvc.verify import VC
        reg = contracts.load(module)
        repo = Repo(repo_root)
        vc = VC(repo, reg, budget_ms)
        r = vc.verify(qualname).to_json()
        r['contract_module'] = module
        c = reg.get(qualname) or reg.get('.'.join(qualname.split('.')[1:]))
        r['trusted_callees'] = sorted(k for k, cc in reg.contracts.items() if cc.trusted)
        return r
    except Exception as e:
        return {'function': qualname, 'contract_module': module, 'status': 'crash',
                'reason': f"{type(e).__name__}: {e}\n{traceback.format_exc()[-1500:]}", 'obligations': [],
                'wall_s': time.time() - t0, 'paths': 0}


def run_targets(targets, repo_root, budget_ms=20000, workers=None):
    """targets: list of (contract_module, qualname)."""
    workers = workers or min(16, max(1, len(targets)))
    os.environ['PYVC_INNER_WORKERS'] = str(max(4, min(12, 32 // max(1, len(targets)))))
    jobs = [(m, q, repo_root, budget_ms) for m, q in targets]
    out = {}
    if not jobs:
        return []
    with ProcessPoolExecutor(max_workers=workers) as ex:
        futs = {ex.submit(_one, j): j for j in jobs}
        for f in as_completed(futs):
            j = futs[f]
            try:
                out[(j[0], j[1])] = f.result()
            except Exception as e:
                out[(j[0], j[1])] = {'function': j[1], 'contract_module': j[0], 'status': 'crash',
                                     'reason': repr(e), 'obligations': [], 'wall_s': 0, 'paths': 0}
    return [out[(m, q)] for m, q in targets]
