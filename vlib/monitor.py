"""Run-time reading of the Bounded protocol B (DESIGN 5) installed from outside on every class that defines
tighten_bounds (discovered by introspection)."""
import importlib
import inspect

MODULES = ['graphtage.edits', 'graphtage.graphtage', 'graphtage.levenshtein', 'graphtage.multiset', 'graphtage.sequences',
           'graphtage.matching', 'graphtage.search', 'graphtage.xml', 'graphtage.bounds', 'graphtage.dataclasses',
           'graphtage.pydiff', 'graphtage.plist', 'graphtage.csv']


class Violation(Exception):
    pass


class Monitor:
    def __init__(self):
        self.history = {}       # id(obj) -> list of (lb, ub)
        self.objs = {}
        self.events = []
        self.invalidated = []
        self.calls = 0
        self.classes = []
        self.installed = []

    def install(self):
        seen = set()
        for mn in MODULES:
            try:
                mod = importlib.import_module(mn)
            except Exception:
                continue
            for name, cls in inspect.getmembers(mod, inspect.isclass):
                if cls in seen or 'tighten_bounds' not in cls.__dict__:
                    continue
                if not cls.__module__.startswith('graphtage'):
                    continue
                if getattr(cls, '_is_protocol', False) or name in ('Bounded', 'Edit', 'CompoundEdit'):
                    continue
                seen.add(cls)
                self._wrap(cls)
        return self

    def _wrap(self, cls):
        orig = cls.__dict__['tighten_bounds']
        mon = self

        def wrapped(obj, *a, **kw):
            mon.calls += 1
            try:
                b0 = obj.bounds()
                before = (b0.lower_bound, b0.upper_bound)
            except Exception as e:
                raise
            r = orig(obj, *a, **kw)
            b1 = obj.bounds()
            after = (b1.lower_bound, b1.upper_bound)
            mon.record(obj, cls, before, r, after)
            return r
        wrapped.__wrapped__ = orig
        setattr(cls, 'tighten_bounds', wrapped)
        self.installed.append((cls, orig))
        self.classes.append(cls.__name__)

    def uninstall(self):
        for cls, orig in self.installed:
            setattr(cls, 'tighten_bounds', orig)
        self.installed = []

    def record(self, obj, cls, before, r, after):
        k = id(obj)
        h = self.history.setdefault(k, [])
        self.objs[k] = obj
        if not h:
            h.append(before)
        h.append(after)
        name = type(obj).__name__
        valid = getattr(obj, 'valid', True)
        if not valid:
            # an edit that invalidates itself (its cost exceeds its own constant ceiling) reports the meaningless Range():
            # legitimate only for an alternative that is really impossible; recorded so that the harness can decide
            self.invalidated.append((name, before, r, after))
            return
        try:
            if after[0] < before[0] or after[1] > before[1]:
                self.events.append(('widened', name, before, r, after))
            if r and after == before:
                self.events.append(('true-without-progress', name, before, r, after))
            if not r and after[0] != after[1]:
                self.events.append(('false-not-definitive', name, before, r, after))
        except TypeError:
            self.events.append(('incomparable', name, before, r, after))

    def soundness_events(self):
        """Retrospective: once an object is definitive, every earlier range must have contained the final value."""
        ev = []
        for k, h in self.history.items():
            last = h[-1]
            try:
                if last[0] == last[1]:
                    f = last[0]
                    for rng in h:
                        if not (rng[0] <= f <= rng[1]):
                            ev.append(('unsound', type(self.objs[k]).__name__, rng, None, last))
                            break
            except TypeError:
                pass
        return ev
