"""Helpers to drive the real graphtage (imported from the tree under check) in the bounded stand-ins."""
import contextlib
import io
import json
import os
import sys
import tempfile

OPTION_COMBOS = [
    dict(allow_key_edits=ak, auto_match_keys=am, allow_list_edits=al, allow_list_edits_when_same_length=asl)
    for (ak, am) in ((True, True), (True, False), (False, False))
    for (al, asl) in ((True, True), (True, False), (False, True))
]
CLI_FLAGS = {
    (True, True): ['--dict-strategy', 'auto'], (True, False): ['--dict-strategy', 'match'],
    (False, False): ['--dict-strategy', 'none'],
}


def cli_flags(opt):
    fl = list(CLI_FLAGS[(opt['allow_key_edits'], opt['auto_match_keys'])])
    if not opt['allow_list_edits']:
        fl.append('-l')
    if not opt['allow_list_edits_when_same_length']:
        fl.append('-ll')
    return fl


def build(doc, opt=None):
    import graphtage
    from graphtage import json as gjson
    return gjson.build_tree(doc, graphtage.BuildOptions(**(opt or {})))


class _KeepOpen(io.StringIO):
    def close(self):
        pass


def run_cli(argv):
    """graphtage.__main__.main(argv) in-process with captured stdout/stderr. Returns (rc, out, err, exc)."""
    import graphtage.__main__ as gm
    import graphtage.printer as printermodule
    import logging
    out, err = _KeepOpen(), _KeepOpen()
    saved_printer = printermodule.DEFAULT_PRINTER
    root = logging.getLogger()
    saved_handlers = list(root.handlers)
    rc, exc = None, None
    try:
        with contextlib.redirect_stdout(out), contextlib.redirect_stderr(err):
            try:
                rc = gm.main(['graphtage'] + list(argv))
            except SystemExit as e:
                rc = e.code if isinstance(e.code, int) else (0 if e.code is None else 1)
            except BaseException as e:  # noqa
                exc = e
    finally:
        printermodule.DEFAULT_PRINTER = saved_printer
        for h in list(root.handlers):
            if h not in saved_handlers:
                root.removeHandler(h)
    return rc, out.getvalue(), err.getvalue(), exc


class TempFiles:
    def __init__(self):
        self.dir = tempfile.mkdtemp(prefix='gtverif_')
        self.n = 0

    def write(self, text, suffix='.json', binary=False):
        self.n += 1
        p = os.path.join(self.dir, f"f{self.n}{suffix}")
        with open(p, 'wb' if binary else 'w') as f:
            f.write(text)
        return p

    def json(self, doc):
        return self.write(json.dumps(doc), '.json')

    def cleanup(self):
        import shutil
        shutil.rmtree(self.dir, ignore_errors=True)


def flat_edits(edit):
    """Recursive walk of an edit tree -> list of leaf (non-compound) edits."""
    from graphtage.tree import CompoundEdit
    if isinstance(edit, CompoundEdit):
        res = []
        for e in edit.edits():
            res.extend(flat_edits(e))
        return res
    return [edit]


def tighten(edit, limit=100000):
    n = 0
    while edit.tighten_bounds():
        n += 1
        if n > limit:
            raise RuntimeError("tighten_bounds did not converge within the step budget")
    return n


# ---------------------------------------------------------------------------------------------- XML / CSV / multiset docs
def xml_specs(depth=2):
    """Small XML element specs: (tag, attrib dict, text, children)."""
    leaves = [('a', {}, None, ()), ('a', {}, 't', ()), ('b', {'x': '1'}, None, ()), ('a', {'x': '2'}, 'u', ())]
    if depth <= 1:
        return leaves
    res = list(leaves)
    import itertools
    for tag in ('a', 'r'):
        for kids in itertools.chain(itertools.product(leaves, repeat=1), itertools.product(leaves[:3], repeat=2)):
            res.append((tag, {}, None, tuple(kids)))
    return res


def build_xml(spec, opt=None):
    import xml.etree.ElementTree as ET
    import graphtage
    from graphtage import xml as gxml

    def mk(s):
        e = ET.Element(s[0], dict(s[1]))
        e.text = s[2]
        for k in s[3]:
            e.append(mk(k))
        return e
    return gxml.build_tree(mk(spec), graphtage.BuildOptions(**(opt or {})))


def csv_specs():
    import itertools
    cells = ['a', 'b', '']
    rows = [list(r) for n in (1, 2) for r in itertools.product(cells, repeat=n)]
    tables = [[r] for r in rows] + [[r1, r2] for r1 in rows[:5] for r2 in rows[:5]]
    # blank lines (rows without cells) and the empty table: CSVNode has its own notion of equality for "nothing" tables
    tables += [[], [[]], [[], []], [[], [], []], [[], ['a']], [['a'], []], [[], ['']], [[''], []]]
    return tables


def build_csv(table, opt=None):
    import graphtage
    from graphtage import csv as gcsv, json as gjson
    o = graphtage.BuildOptions(**(opt or {}))
    rows = []
    for row in table:
        data = [gjson.build_tree(i, options=o) for i in row]
        for col in data:
            if isinstance(col, graphtage.StringNode):
                col.quoted = False
        rows.append(gcsv.CSVRow(data))
    return gcsv.CSVNode(rows)


def build_multiset(items, opt=None):
    import graphtage
    return graphtage.MultiSetNode([build(i, opt) for i in items])


def snapshot(node):
    """Structural snapshot of a tree (class name without the 'Edited' prefix, payload, flags, children in order; multiset
    children sorted) - independent of to_obj()."""
    import graphtage
    name = type(node).__name__
    if name.startswith('Edited'):
        name = name[len('Edited'):]
    if isinstance(node, graphtage.LeafNode):
        return (name, repr(node.object))
    kids = [snapshot(c) for c in node.children()]
    if isinstance(node, graphtage.MultiSetNode):
        kids = sorted(kids, key=repr)
    flags = tuple((f, getattr(node, f)) for f in ('allow_key_edits', 'auto_match_keys', 'allow_list_edits',
                                                  'allow_list_edits_when_same_length') if hasattr(node, f))
    return (name, flags, tuple(kids))


def deep_state(node, _seen=None):
    """Identity-level state of a tree for purity checks: for every node reachable through instance attributes its id(), its
    exact class name (Edited<Class> wrappers are NOT looked through), and every instance attribute (nodes and containers of
    nodes recursively, primitives by repr). Two snapshots are equal iff no node object was replaced, re-classed or had an
    attribute rebound/changed."""
    import graphtage
    from graphtage.tree import TreeNode
    if _seen is None:
        _seen = set()

    def val(v):
        if isinstance(v, TreeNode):
            return deep_state(v, _seen)
        if isinstance(v, dict):
            return ('dict', tuple((val(k), val(x)) for k, x in v.items()))
        if isinstance(v, (list, tuple)):
            return (type(v).__name__, tuple(val(x) for x in v))
        if isinstance(v, (str, int, float, bool, bytes, type(None))):
            return repr(v)
        return ('obj', type(v).__name__)
    if id(node) in _seen:
        return ('ref', id(node))
    _seen.add(id(node))
    attrs = []
    for k, v in sorted(getattr(node, '__dict__', {}).items()):
        if k in ('_parent', '_total_size', '_LeafNode__hash', '_KeyValuePairNode__hash'):
            continue        # back pointer (cycle) and memoised size / hash
        attrs.append((k, val(v)))
    return (id(node), type(node).__name__, tuple(attrs))


def build_any(spec, opt):
    """spec: a JSON-like document, or ('xml', xml_spec) / ('plist', doc) / ('csv', csv_spec) / ('pyobj', doc) / ('pyast', source)."""
    if isinstance(spec, (tuple, list)) and len(spec) == 2 and spec[0] in ('xml', 'plist', 'csv', 'pyobj', 'mset', 'pyast'):
        kind, x = spec
        if kind == 'xml':
            return build_xml(x), 'xml'
        if kind == 'csv':
            return build_csv(x), 'csv'
        if kind == 'plist':
            from graphtage.plist import PLISTNode
            return PLISTNode(build(x, opt)), 'plist'
        if kind == 'mset':
            return build_multiset(x, opt), 'json'
        if kind == 'pyast':
            # Python source -> ast -> tree of data-class nodes (Assignment, Call, Import, Subscript, ...)
            import ast
            import graphtage
            from graphtage import pydiff
            return pydiff.ast_to_tree(ast.parse(x), graphtage.BuildOptions(**opt)), 'json'
        if kind == 'pyobj':
            from graphtage import pydiff
            import graphtage
            return pydiff.build_tree(_PyObj(x), graphtage.BuildOptions(**opt)), 'json'
    return build(spec, opt), 'json'


class _PyObj:
    def __init__(self, doc):
        self.doc = doc
        self.name = 'n'



def canon(node):
    """Order-insensitive canonical form: mappings and multisets sorted, lists in order."""
    import graphtage
    if node is None:
        return None
    if isinstance(node, graphtage.LeafNode):
        return (type(node.object).__name__, repr(node.object))
    kids = [canon(c) for c in node.children()]
    if isinstance(node, (graphtage.MultiSetNode, graphtage.MappingNode)):
        return ('unordered', tuple(sorted(kids, key=repr)))
    return (type(node).__name__.replace('Edited', ''), tuple(kids))


def pyast_sources():
    """Small Python modules whose trees are made of data-class nodes: assignments of scalars, lists, dicts with renamed keys,
    calls, imports, subscripts, attribute access; one and several statements."""
    vals = ["'hello world'", "'hello wurld!'", "[1, 2, 'three', 4]", "[1, 'two', 'three', 5, 6]", "{'name': 'alpha', 'port': 8080}",
            "{'name': 'alpha-2', 'port': 8081}", "{'hostname': 'alpha.example.org'}", "{'host_name': 'alpha.example.com'}",
            "{'hostname': 'alpha.example.org', 'ports': [80, 443], 'debug': 0}", "{'host_name': 'alpha.example.com', 'port_list': [80, 8443], 'debug': 0}",
            "{'colour': 'red'}", "{'color': 'dark red'}", "{}", "[]", "{1, 2}", "(1, 'b')", "None", "{'a': {'b': 1}}", "{'a': {'c': 2}, 'd': []}"]
    out = [f"{t} = {v}" for v in vals for t in ('cfg', 'config')[:1 + (len(v) % 2)]]
    out += ["f(1, 'a')", "g(1, 'b', [2])", "obj.method({'k': 1})", "obj.method({'j': 2}, 3)", "from os import path", "from os import path as p, sep",
            "x = d['key']", "x = d['other'][0]", "x = a.b.c", "x = a.b.d",
            "from m import f\ncfg = {'hostname': 'a.example.org'}\nf(cfg, 1)", "from m import g\ncfg = {'host_name': 'a.example.com'}\ng(cfg)\nh()"]
    return out
