"""Whole-tree oracle for the bounded stand-ins of C01 / C03 / C10: walks a fully refined edit recursively and checks the
local partition, the option restrictions and the cost sums at every nesting level."""
from collections import Counter


def _classes():
    import graphtage
    from graphtage import edits as E
    from graphtage.tree import CompoundEdit
    return graphtage, E, CompoundEdit


def refine(edit, budget=200000):
    n = 0
    while edit.tighten_bounds():
        n += 1
        if n > budget:
            raise RuntimeError('tighten_bounds did not converge within the step budget')
    return n


def _same(x, y):
    """Structural equality of two nodes (not the node classes' own __eq__)."""
    from vlib import gt as _gt
    try:
        return _gt.canon(x) == _gt.canon(y)
    except Exception:
        return x == y


def kind(sub, E):
    if isinstance(sub, E.Remove):
        return 'remove'
    if isinstance(sub, E.Insert):
        return 'insert'
    return 'pair'


def plain_type(node):
    """Class of a node, looking through the dynamically created Edited<Class> wrappers of TreeNode.make_edited()."""
    from graphtage.tree import EditedTreeNode
    t = type(node)
    if isinstance(node, EditedTreeNode) and len(t.__bases__) == 2 and t.__bases__[0] is EditedTreeNode:
        return t.__bases__[1]
    return t


def edited(node):
    """The edited deep copy that TreeNode.diff() works on (so checks can follow the same path as diff())."""
    return node.make_edited()


def ordered(node, graphtage):
    from graphtage.xml import XMLElement
    if isinstance(node, (graphtage.MultiSetNode, graphtage.FixedKeyDictNode)):
        return False
    return isinstance(node, (graphtage.ListNode, graphtage.KeyValuePairNode, XMLElement))


def walk(edit, from_node, to_node, opt, fails, path='$', depth=0):
    """Checks edit (a pair edit for from_node -> to_node) and recurses. Appends dicts {'what','class'} to fails."""
    graphtage, E, CompoundEdit = _classes()
    if edit.from_node is not from_node:
        fails.append({'what': f"{path}: edit {type(edit).__name__} has from_node {edit.from_node!r}, expected {from_node!r}",
                      'class': 'c01-wrong-from-node'})
    if getattr(edit, 'to_node', None) is not to_node and not _same(getattr(edit, 'to_node', None), to_node):
        fails.append({'what': f"{path}: edit {type(edit).__name__} has to_node {edit.to_node!r}, expected {to_node!r}",
                      'class': 'c01-wrong-to-node'})
    b = edit.bounds()
    if b.lower_bound != b.upper_bound:
        fails.append({'what': f"{path}: {type(edit).__name__} bounds {b} not definitive after refinement", 'class': 'c03-not-definitive'})
    if isinstance(edit, graphtage.StringEdit):
        ed = edit.edit_distance
        s1 = ''.join(c.object for c in ed.from_node.children()) if ed.from_node.children() else ''
        s2 = ''.join(c.object for c in ed.to_node.children()) if ed.to_node.children() else ''
        if s1 != from_node.object or s2 != to_node.object:
            fails.append({'what': f"{path}: string edit built for {s1!r}->{s2!r}, nodes are {from_node.object!r}->{to_node.object!r}",
                          'class': 'c01-string-edit-operands'})
        eb = ed.bounds()
        if (eb.lower_bound, eb.upper_bound) != (b.lower_bound, b.upper_bound):
            fails.append({'what': f"{path}: StringEdit bounds {b} differ from its edit distance {eb}", 'class': 'c03-sum-mismatch'})
        # the per-character lists are internal to the string edit: document-level list options do not apply to them
        walk(ed, ed.from_node, ed.to_node, None, fails, path + '.chars', depth + 1)
        return
    if not isinstance(edit, CompoundEdit):
        # a container kept as a whole at no cost must be the same container on both sides (compared structurally, not with
        # the nodes' own __eq__, which some classes override)
        if b.upper_bound == 0 and isinstance(from_node, graphtage.tree.ContainerNode) and isinstance(to_node, graphtage.tree.ContainerNode):
            from vlib import gt as _gt
            try:
                same = _gt.canon(from_node) == _gt.canon(to_node)
            except Exception:
                same = True
            if not same:
                fails.append({'what': f"{path}: {type(edit).__name__} of cost 0 keeps container {from_node!r} as {to_node!r}, which is a "
                                      f"different container", 'class': 'c01-unequal-containers-matched'})
        return
    subs = list(edit.edits())
    F = list(from_node.children())
    T = list(to_node.children()) if hasattr(to_node, 'children') else []
    src, dst, pairs = [], [], []
    for s in subs:
        k = kind(s, E)
        if k == 'remove':
            src.append(s.from_node)
        elif k == 'insert':
            dst.append(s.to_insert)
        else:
            src.append(s.from_node)
            dst.append(s.to_node)
            pairs.append(s)
    is_ord = ordered(from_node, graphtage) and ordered(to_node, graphtage)
    name = type(edit).__name__
    if is_ord:
        if len(src) != len(F) or any(x is not y for x, y in zip(src, F)):
            fails.append({'what': f"{path}: {name} covers source children {src!r}, container has {F!r} (each exactly once, in order)",
                          'class': 'c01-source-partition'})
        if len(dst) != len(T) or any((x is not y) and not _same(x, y) for x, y in zip(dst, T)):
            fails.append({'what': f"{path}: {name} covers target children {dst!r}, container has {T!r} (each exactly once, in order)",
                          'class': 'c01-target-partition'})
    else:
        if Counter(src) != Counter(F):
            fails.append({'what': f"{path}: {name} covers source items {src!r}, container has {F!r} (each exactly once)",
                          'class': 'c01-source-partition'})
        if Counter(dst) != Counter(T):
            fails.append({'what': f"{path}: {name} covers target items {dst!r}, container has {T!r} (each exactly once)",
                          'class': 'c01-target-partition'})
    # C03: cost equals the sum of the listed parts at this level
    tot_l = sum(s.bounds().lower_bound for s in subs)
    tot_u = sum(s.bounds().upper_bound for s in subs)
    if (tot_l, tot_u) != (b.lower_bound, b.upper_bound):
        cls = f'c03-sum-mismatch:{name}'
        if name == 'MultiSetEdit' and len(edit.to_remove) != len(edit.to_insert):
            # the listed finding: bounds() adds the LARGEST |to_remove|-|to_insert| removals (insertions), not the ones that
            # edits() emits.  Only a reported cost that equals that prediction is filed under it.
            try:
                left = [s for s in subs if kind(s, E) != 'pair']
                rest = sum(s.bounds().upper_bound for s in subs if kind(s, E) == 'pair')
                pool = edit.to_remove if len(edit.to_remove) > len(edit.to_insert) else edit.to_insert
                n_left = abs(len(edit.to_remove) - len(edit.to_insert))
                sizes = sorted((x.total_size + 1 for x in pool.elements()), reverse=True)
                predicted = rest + sum(sizes[:n_left])
                if (b.lower_bound, b.upper_bound) == (predicted, predicted) and len(left) == n_left:
                    cls += ':leftover'
                else:
                    cls += ':leftover-unexplained'
            except Exception:
                cls += ':leftover-unexplained'
        fails.append({'what': f"{path}: {name} reports cost {b} but its listed sub-edits sum to [{tot_l}, {tot_u}] "
                              f"({[(type(s).__name__, str(s.bounds())) for s in subs]})", 'class': cls})
    # C10: option restrictions
    check_options(edit, from_node, to_node, subs, F, T, opt, fails, path, graphtage, E)
    for i, s in enumerate(pairs):
        if depth < 12:
            walk(s, s.from_node, s.to_node, opt, fails, f"{path}/{i}", depth + 1)


def check_options(edit, from_node, to_node, subs, F, T, opt, fails, path, graphtage, E):
    if opt is None:
        return
    KV = graphtage.KeyValuePairNode
    is_map = isinstance(from_node, graphtage.MappingNode) and isinstance(to_node, graphtage.MappingNode)
    if is_map:
        if not opt['allow_key_edits']:
            for s in subs:
                if kind(s, E) == 'pair' and isinstance(s.from_node, KV) and isinstance(s.to_node, KV) and s.from_node.key != s.to_node.key:
                    fails.append({'what': f"{path}: dict strategy 'none' but {s.from_node!r} is paired with {s.to_node!r}",
                                  'class': 'c10-none-cross-key-pair'})
        if opt['allow_key_edits'] and opt['auto_match_keys'] or not opt['allow_key_edits']:
            fk = {c.key: c for c in F if isinstance(c, KV)}
            tk = {c.key: c for c in T if isinstance(c, KV)}
            paired = {}
            for s in subs:
                if kind(s, E) == 'pair' and isinstance(s.from_node, KV) and isinstance(s.to_node, KV):
                    paired[s.from_node.key] = s.to_node.key
            for k in fk:
                if k in tk and paired.get(k) != k:
                    fails.append({'what': f"{path}: key {k!r} is present in both mappings but is paired with {paired.get(k)!r}",
                                  'class': 'c10-common-key-not-self-paired'})
    if plain_type(from_node) is graphtage.ListNode and plain_type(to_node) is graphtage.ListNode:
        positional = (not opt['allow_list_edits']) or (len(F) == len(T) and not opt['allow_list_edits_when_same_length'])
        if positional and F != T:
            k = min(len(F), len(T))
            ok = len(subs) == max(len(F), len(T))
            for i, s in enumerate(subs):
                if not ok:
                    break
                if i < k:
                    ok = kind(s, E) == 'pair' and s.from_node is F[i] and s.to_node is T[i]
                elif len(F) > len(T):
                    ok = kind(s, E) == 'remove' and s.from_node is F[i]
                else:
                    ok = kind(s, E) == 'insert' and s.to_insert is T[i]
            if not ok:
                fails.append({'what': f"{path}: list edits disabled but the script for {F!r} -> {T!r} is not positional pairs "
                                      f"plus a surplus tail: {[(kind(s, E), s.from_node) for s in subs]}",
                              'class': 'c10-list-not-positional'})
